#!/venv/bin/python
"""CLI: check.py <ID> [--tier quick|thorough] [--replay file] [--seed N]

exit 0 = property held on everything explored (known findings are reported as KNOWN-FINDING lines)
exit 1 = at least one 'VIOLATION property=<id> replay=<path>' line
exit 2 = harness error (never a verdict)
"""
import os
import sys

HERE = os.path.dirname(os.path.abspath(__file__))


def _ensure_env():
    if os.environ.get("PYTHONHASHSEED") != "0" or os.environ.get("PYTHONDONTWRITEBYTECODE") != "1":
        env = dict(os.environ, PYTHONHASHSEED="0", PYTHONDONTWRITEBYTECODE="1")
        os.execve(sys.executable, [sys.executable] + sys.argv, env)


def _ensure_deps():
    deps = os.path.join(HERE, ".deps")
    if os.path.isdir(deps) and deps not in sys.path:
        sys.path.insert(1, deps)
    try:
        import hypothesis  # noqa
    except ImportError:
        import subprocess
        os.makedirs(deps, exist_ok=True)
        subprocess.run([sys.executable, "-m", "pip", "install", "--quiet", "--no-index", "--find-links",
                        "/opt/veriftools/wheels", "--target", deps, "hypothesis"], check=False)
        if deps not in sys.path:
            sys.path.insert(1, deps)
        import hypothesis  # noqa


def main(argv):
    import argparse
    ap = argparse.ArgumentParser()
    ap.add_argument("id")
    ap.add_argument("--tier", default=os.environ.get("VERIF_TIER") or "quick", choices=["quick", "thorough"])
    ap.add_argument("--replay")
    ap.add_argument("--seed", type=int, default=None)
    ap.add_argument("--budget", type=float, default=None, help="real-time budget in seconds (inconclusive beyond)")
    a = ap.parse_args(argv)
    seed = a.seed if a.seed is not None else int(os.environ.get("VERIF_SEED", "1") or "1")
    sys.path.insert(0, HERE)
    _ensure_deps()
    from vlib import runner, simkernel
    from checks import get_check
    try:
        chk = get_check(a.id)
        if a.replay:
            return runner.replay(chk, a.replay)
        budget = a.budget if a.budget is not None else (900.0 if a.tier == "quick" else 3 * 3600.0)
        return runner.run_check(chk, a.tier, seed, wall_budget=budget)
    except simkernel.HarnessError as e:
        print("HARNESS ERROR: %s" % e)
        return 2
    except Exception:
        import traceback
        traceback.print_exc()
        print("HARNESS ERROR: unexpected exception in the runner")
        return 2


if __name__ == "__main__":
    _ensure_env()
    rc = main(sys.argv[1:])
    sys.stdout.flush()
    os._exit(rc)
