#!/venv/bin/python
"""Differential self-test of the trusted base: the same micro-programs run on the real time/threading/queue modules
and on the fakes of vlib/simkernel must produce the same observable outcome (exceptions, return values, ordering).
Exit 0 if all agree."""
import os
import sys
import queue as rq
import threading as rt
import time as rtime

HERE = os.path.dirname(os.path.abspath(__file__))
sys.path.insert(0, os.path.dirname(HERE))
from vlib import simkernel as sk


def programs(time, threading, queue):
    out = []

    def rec(name, fn):
        try:
            out.append((name, "ret", fn()))
        except BaseException as e:  # noqa
            out.append((name, "exc", type(e).__name__ if not type(e).__name__.startswith("Sim") else type(e).__name__[3:]))

    q = queue.Queue()
    rec("get negative timeout, empty", lambda: q.get(True, -1))
    q.put(5)
    rec("get negative timeout, non-empty", lambda: q.get(True, -0.5))
    rec("get nonblocking", lambda: q.get(False))
    rec("get nonblocking empty", lambda: q.get(False))
    rec("get timeout empty", lambda: q.get(True, 0.01))
    t0 = time.time()
    rec("get timeout 0.02 elapsed>=0.02", lambda: (q.get(True, 0.02) if False else None) or _timed(q, time, queue, 0.02, t0))
    rec("qsize/empty", lambda: (q.qsize(), q.empty()))
    q.put(1); q.put(2)
    rec("fifo", lambda: (q.get(), q.get()))
    rec("sleep negative", lambda: time.sleep(-1))
    ev = threading.Event()
    rec("event wait timeout", lambda: ev.wait(0.01))
    ev.set()
    rec("event wait set", lambda: ev.wait(0.01))
    rec("event is_set", lambda: ev.is_set())
    lk = threading.Lock()
    lk.acquire()
    rec("lock acquire nonblocking when locked", lambda: lk.acquire(False))
    lk.release()
    rec("lock release unlocked", lambda: lk.release())
    # producer / consumer
    res = []
    q2 = queue.Queue()

    def consumer():
        while True:
            x = q2.get()
            if x is None:
                break
            res.append(x)

    th = threading.Thread(target=consumer, name="cons")
    th.daemon = True
    th.start()
    for i in range(3):
        q2.put(i)
    q2.put(None)
    th.join()
    rec("producer/consumer", lambda: (list(res), th.is_alive()))
    # a thread that raises dies alone
    def boom():
        raise KeyError("x")
    old = getattr(threading, "excepthook", None)
    if old is not None and threading is rt:
        threading.excepthook = lambda a: None
    t2 = threading.Thread(target=boom)
    t2.start()
    t2.join()
    if old is not None and threading is rt:
        threading.excepthook = old
    rec("dead thread", lambda: t2.is_alive())
    rec("join with timeout on finished thread", lambda: t2.join(0.01))
    # timed get wakes on put
    q3 = queue.Queue()
    got = []

    def waiter():
        try:
            got.append(q3.get(True, 1.0))
        except queue.Empty:
            got.append("empty")

    t3 = threading.Thread(target=waiter)
    t3.start()
    time.sleep(0.01)
    q3.put("item")
    t3.join()
    rec("timed get woken by put", lambda: list(got))
    return out


def _timed(q, time, queue, d, t0):
    t0 = time.time()
    try:
        q.get(True, d)
    except queue.Empty:
        pass
    return time.time() - t0 >= d


def main():
    real = programs(rtime, rt, rq)
    sim = sk.begin()
    fake = programs(sk.FAKE_TIME, sk.FAKE_THREADING, sk.FAKE_QUEUE)
    sk.end()
    bad = 0
    for a, b in zip(real, fake):
        flag = "ok" if a == b else "DIFF"
        if a != b:
            bad += 1
        print("%-45s real=%-28r sim=%-28r %s" % (a[0], a[1:], b[1:], flag))
    print("kernel self-test: %d difference(s)" % bad)
    return 1 if bad or len(real) != len(fake) else 0


if __name__ == "__main__":
    sys.exit(main())
