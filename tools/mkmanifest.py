#!/venv/bin/python
"""Regenerate MANIFEST.json from the table below (kept valid against /root/.vp/MANIFEST.schema.json)."""
import json
import os
import sys

HERE = os.path.dirname(os.path.abspath(__file__))
VERIF = os.path.dirname(HERE)
sys.path.insert(0, VERIF)

NOTE = ("Trusted base: the virtual-time kernel (vlib/simkernel.py) and bus model (vlib/simbus.py) produce only executions "
        "a CPython deployment can exhibit (DESIGN.md section 3): atomic steps between blocking points, timed waits never "
        "early, one total bus order, harness callbacks take zero time; the reference codec/peer (vlib/refcodec.py, "
        "vlib/refpeer.py) is written from the SAE frame layouts. Generated search never proves absence.")

# id -> (level, text, design_ref)   only checks listed here are claimed
BUILT = {
 "C01": ("exploration", "Generated networks of 2-4 real stacks with overlapping transfers, independent windows and per-receiver latencies incl. re-entrant delivery, judged by a reference delivery model (multiset equality per listener, both directions). Submissions from the application, timer and receive callbacks and from retrying applications; frame writes that take time before/after the frame is on the bus; slow receive callbacks; payload lists reused by the caller; data page 1 with the protocol's own PDU formats. Reaches schedules/latencies the real-time suite cannot produce; covers thousands of networks per run.", "5/C01"),
 "C02": ("exploration", "Generated FD networks with bursts of up to 14 simultaneous sessions per stack (one or both directions, staggered waves) judged by a reference delivery model and a reference capacity model (first 8 RTS/CTS + 4 BAM accepted, further calls refused without a frame); submissions from several contexts a fraction of a millisecond apart while frame writes take up to 2 ms.", "5/C02"),
 "C03": ("exploration", "Differential testing against an independent implementation of the SAE frame layouts (reference peer + strict decoder) in both roles, both layers, RTS/CTS and BAM, with the peer's legal choices generated (grants, holds refreshed after up to 0.499 s, retransmission requests, latencies, limits, pacing); a symmetric encoder+decoder mistake passes stack-vs-stack tests but fails here.", "5/C03"),
 "C04": ("exploration", "Generated claim configurations (adversarial NAME sets in every order, AAC mix, address layouts, claim instants around the 250 ms veto window, latencies incl. re-entrant) judged by a validity predicate over final states and the bus trace: settled, unique, lowest NAME keeps a contested address, losers cannot-claim or move.", "5/C04"),
 "C05": ("exploration", "Generated stack configurations (CAs in every claim state, ECU-level listeners) with an exhaustive inner sweep over all 256 destination addresses (battery of single and transport frames to unowned ones, single frame + complete transfer to owned ones), a foreign bystander session, broadcasts, and all 8 frame-flag combinations; reference routing table with no-TX / no-state checks.", "5/C05"),
 "C06": ("fault_enumeration", "Every single frame loss and every silence point of either peer, for 110 transfer shapes on both data link layers, enumerated completely per shape (k over all bus frames), with recovery follow-up, per-state time-out oracle (T1 inside a window, T2/T3 otherwise) cyclic application timers next to the transfer, and an impatient application that re-sends its newest value as soon as send_pgn accepts (exact-or-nothing per delivery); payload/latency draws by Hypothesis.", "5/C06"),
 "C07": ("exploration", "Grammar-based fuzzing: protocol-aware frame sequences (all control bytes, boundary fields, spoofed sources, gaps up to beyond every timeout) injected while own transfers run, plus reactive injection (answers to the stack's own frames while it is still writing them); liveness via thread state and a deterministic busy-spin watchdog, then timer, release and follow-up-transfer oracles.", "5/C07"),
 "C08": ("exploration", "Every traced source line of either job thread as a pre-emption point (3 durations) for 14 transfer shapes (originating and receiving role, incl. an abandoned broadcast whose time-out coincides with the next announcement), differential against the un-pre-empted run; double pre-emptions sampled. Line-granular, not bytecode-granular.", "5/C08"),
 "C09": ("exploration", "Trace monitor over the time-stamped bus log of generated sessions (stack vs reference peer in both roles, stack vs stack): clearance per CTS, order, holds, BAM and connection-mode pacing (also with further broadcast sessions of the same stack running at once, frame writes that take time or wait a varying time before the bus, another ECU object configured earlier in the process), grant bounds incl. an enumeration of their boundaries.", "5/C09"),
 "C10": ("exploration", "Model-based testing of transfer histories with injected fates (incl. a responder that times out itself while the stack's own time-out abort is being written) and inbound sessions on arbitrary session numbers against a reference capacity model, then a full-concurrency probe that must be accepted and delivered and one more call that must be refused without a frame.", "5/C10"),
 "C11": ("exploration", "Generated send_pgn sequences (packing boundaries, time limits, FEFF/FBFF, app/timer context, frame writes that take time; plus schedule sweeps in which the calling application thread is held at every traced source line inside the stack) with an independent multi-PG reference unpacker over every emitted frame, delivery multiset per listener, and a deadline monitor.", "5/C11"),
 "C12": ("exploration", "Generated operation histories executed on the real ECU job thread under a virtual-time kernel and compared with a reference timer model: call windows per registration, no drift, no call after removal or unsubscription, no missing call; operations from inside timer and subscriber callbacks, callbacks that take time, deliveries in flight; the ECU's, a CA's and the request stream's subscribe/unsubscribe pairs; includes exact deadline/clock coincidences.", "5/C12"),
 "C13": ("exploration", "Generated claim histories (start, waits around the veto window, contending claims) interleaved with send attempts through every entry point; write durations in every context, address losses aligned with timer ticks, slow DM1 data callbacks and the initial claim's write; oracle = loss events by bus order + public CA state at each call, a trace monitor over every emitted frame, and liveness of the background thread under services built on the send calls (DM1 cycle).", "5/C13"),
 "C14": ("exploration", "Generated responder configurations in every claim state with an exhaustive sweep over all 256 destinations for boundary/random PGNs incl. the address-claim PGN; reference dispatch (every registered request callback exactly once on owning operational CAs - also when one unsubscribes itself or a CA is removed during the dispatch -, claim answers, request encoding).", "5/C14"),
 "C15": ("exploration", "PGN space (2^18) enumerated in both tiers, identifier space (2^29) enumerated in the thorough tier (stride sample + boundaries in quick), NAME space covered by exhaustive per-field sweeps, single bits, boundary tuples and Hypothesis draws (constructor and setter paths), plus the arbitration decision of a real CA for NAME pairs incl. contender frames with the reserved bit set, all against an independent reference codec.", "5/C15"),
 "C16": ("exploration", "DTC (all 2^19 SPN), lamp (all 5^4) and DM22 codecs enumerated against the J1939-73 bit layout; generated end-to-end DM1 histories (1..400 codes, single frame / BAM / FD multi-PG / FD BAM, several cycles incl. cycles shorter than the transfer, the data callback asked every cycle, a sending object that also subscribes while a foreign node sends DM1, application-owned dicts updated in place, post-processing and one-shot subscribers, stop_send from the application and from inside the callback, then silence) on both layers.", "5/C16"),
 "C17": ("exploration", "Generated DM14 read/write transactions (1..255 bytes, object sizes 1/2/4/8, raw/converted, signed/unsigned, seed/key on/off, back to back) between two real stacks with blocking application threads in virtual time and client-side frame writes that take time, judged by a reference memory model, proceed-callback arguments and idleness afterwards.", "5/C17"),
 "C18": ("exploration", "Generated histories of DM14 operations with failure fates (wrong key, refusal by the proceed callback, respond(False) with every J1939 error code, a device failing after 'proceed', an answer at the last moment of the caller's timeout, absent server) judged by: callbacks only after the matching key (bus trace), exception text and timing, and success of the next well-formed operation.", "5/C18"),
 "C19": ("fault_enumeration", "An intruding DM14 (other source address, or the requester's own address with another pointer; once or three times) injected after every bus frame of every transaction shape (and during a query of the serving CA's own after a change of roles), differential against the undisturbed run: callbacks, client result, respond() result, completion, and 'the only answer is a failed DM15 with error indicator busy to the sender'.", "5/C19"),
}


def main():
    props = [json.loads(l) for l in open(os.path.join(VERIF, "properties.jsonl"))]
    from checks import get_check
    checks = []
    for p in props:
        cid = p["id"]
        if cid not in BUILT:
            continue
        lvl, text, ref = BUILT[cid]
        chk = get_check(cid)
        assert chk.LEVEL == lvl, (cid, chk.LEVEL, lvl)
        checks.append({
            "property_id": cid,
            "quick_cmd": "/venv/bin/python check.py %s --tier quick" % cid,
            "thorough_cmd": "/venv/bin/python check.py %s --tier thorough" % cid,
            "evidence_file": "evidence/%s.json" % cid,
            "replay_cmd_template": "/venv/bin/python check.py %s --replay {path}" % cid,
            "engine": "pbt-sim",
            "level_claimed": {"category": lvl, "text": text, "design_ref": "DESIGN.md " + ref},
            "level_note": NOTE,
            "technique": chk.TECHNIQUE,
        })
    m = {
        "version": 1,
        "setup_cmd": "(/venv/bin/python -c 'import hypothesis' 2>/dev/null || /venv/bin/pip install --no-index --find-links /opt/veriftools/wheels hypothesis) && (test -d .deps/atheris || /venv/bin/pip install --quiet --no-index --find-links /opt/veriftools/wheels --target .deps atheris || true)",
        "hooks": {"guard": "J1939_VERIF",
                  "enable": "none - no source hooks: the harness rebinds time/threading/queue in the j1939 modules at run time (vlib/simkernel.install)",
                  "baseline_off_cmd": "cd /repo && /venv/bin/python -m pytest -ra -q -p no:cacheprovider --timeout=900 --continue-on-collection-errors",
                  "source_commits": [], "add_only": True},
        "engines": [{"name": "pbt-sim", "path": "check.py", "serves_properties": sorted(BUILT),
                     "kind_free_text": "Hypothesis-generated scenarios (and complete enumerations of finite parts) executed on the real stack under a deterministic virtual-time kernel (vlib/), explicit oracle per property"},
                    {"name": "atheris-c07", "path": "tools/fuzz_c07.py", "serves_properties": ["C07"],
                     "kind_free_text": "coverage-guided fuzzing (atheris/libFuzzer, package j1939 instrumented) of the C07 property function through hypothesis.fuzz_one_input; second engine inside check.py C07 (8x250 executions quick, 16x20000 thorough); skipped with a note in the evidence if atheris is not installed"}],
        "checks": checks,
        "notes": "See DESIGN.md. known_findings.json lists genuine defects (fixed ones with their fix commit); corpus/<ID>/ holds regression scenarios replayed first in every quick run; seeded/ holds confirmed property-breaking changes used for sensitivity.",
        "not_applicable": [{"property_id": p["id"], "reason": "check under construction (not yet registered); the technique applies, see DESIGN.md section 5"}
                           for p in props if p["id"] not in BUILT],
    }
    with open(os.path.join(VERIF, "MANIFEST.json"), "w") as f:
        json.dump(m, f, indent=1)
    print("MANIFEST.json: %d checks, %d not_applicable" % (len(checks), len(m["not_applicable"])))


if __name__ == "__main__":
    main()
