#!/venv/bin/python
"""Print the markdown table of seeded changes (seeded/*/meta.json) for DESIGN.md section 11."""
import glob
import json
import os

HERE = os.path.dirname(os.path.abspath(__file__))
VERIF = os.path.dirname(HERE)
print("| seeded change | breaks | what it needs to manifest | confirmed (demo ok / suite ok / demo fails) | checks run -> verdict |")
print("|---|---|---|---|---|")
for p in sorted(glob.glob(os.path.join(VERIF, "seeded", "*", "meta.json"))):
    m = json.load(open(p))
    conf = "%s / %s / %s" % (m.get("demo_unchanged", {}).get("rc") == 0, m.get("suite_with_change", {}).get("rc") == 0,
                             m.get("demo_with_change", {}).get("rc") not in (0, None))
    ran = "; ".join("%s %s" % (r["check"], r["verdict"]) for r in m.get("ran", []))
    hist = (" - " + m["history"]) if m.get("history") else ""
    print("| `%s` | %s | %s | %s | %s%s |" % (m["name"], m.get("breaks", m.get("property")), m.get("needs", ""), conf, ran, hist))
