#!/venv/bin/python
"""Stability protocol (DESIGN.md section 7): every registered quick command, fresh process, several VERIF_SEED values;
must exit 0 without VIOLATION lines.  usage: tools/stability.py [--tier quick] [--seeds 0,1,2] [ids...]"""
import json
import os
import subprocess
import sys
import time

HERE = os.path.dirname(os.path.abspath(__file__))
VERIF = os.path.dirname(HERE)


def main():
    args = sys.argv[1:]
    tier = "quick"
    seeds = [0, 1, 2, 3, 4, 12345]
    while args and args[0].startswith("--"):
        a = args.pop(0)
        if a == "--tier":
            tier = args.pop(0)
        elif a == "--seeds":
            seeds = [int(x) for x in args.pop(0).split(",")]
    m = json.load(open(os.path.join(VERIF, "MANIFEST.json")))
    ids = args or [c["property_id"] for c in m["checks"]]
    out = os.environ.get("VERIF_OUT") or os.path.join("/tmp", "stab_out_%d" % os.getpid())
    os.makedirs(out, exist_ok=True)
    bad = 0
    for cid in ids:
        for s in seeds:
            t0 = time.time()
            r = subprocess.run(["/venv/bin/python", os.path.join(VERIF, "check.py"), cid, "--tier", tier], cwd=VERIF, capture_output=True,
                               text=True, env=dict(os.environ, VERIF_SEED=str(s), VERIF_OUT=out))
            last = r.stdout.strip().splitlines()[-1] if r.stdout.strip() else ""
            flag = "ok" if r.returncode == 0 and "VIOLATION" not in r.stdout else "ALARM"
            if flag != "ok":
                bad += 1
            print("%s seed=%-6d rc=%d %5.1fs %s | %s" % (cid, s, r.returncode, time.time() - t0, flag, last[:150]), flush=True)
            if flag != "ok":
                for l in r.stdout.splitlines():
                    if l.startswith("VIOLATION") or l.startswith("  ") or "HARNESS" in l:
                        print("      " + l[:260], flush=True)
    print("stability: %d alarm(s)" % bad)
    return 1 if bad else 0


if __name__ == "__main__":
    sys.exit(main())
