#!/venv/bin/python
"""Second engine for C07 (DESIGN.md 5/C07): coverage-guided fuzzing with atheris (libFuzzer).

The C07 property function (decode a frame-sequence scenario, run it against the real stack in
virtual time, apply the liveness / timer / release / follow-up oracle) is driven through
``hypothesis.fuzz_one_input``: libFuzzer mutates the byte string that Hypothesis decodes into a
structured scenario, with coverage feedback from the instrumented ``j1939`` package.  Failures are
collected per bucket (the campaign continues behind a found bucket) and returned as replayable
scenario parameters.

usage: fuzz_c07.py <workdir> <seed> <runs>
Prints one JSON line: {"execs":..,"cov":..,"ft":..,"crashes":[{params, violation}],"nontrivial":..}
"""
import os
import sys
import json
import re

HERE = os.path.dirname(os.path.abspath(__file__))
VERIF = os.path.dirname(HERE)


def child():
    sys.path.insert(0, VERIF)
    deps = os.path.join(VERIF, ".deps")
    if os.path.isdir(deps):
        sys.path.insert(1, deps)
    workdir, seed, runs = sys.argv[1], int(sys.argv[2]), int(sys.argv[3])
    statefile = os.path.join(workdir, "state.json")
    corpus = os.path.join(workdir, "corpus")
    os.makedirs(corpus, exist_ok=True)
    import atheris
    repo = os.path.abspath(os.environ.get("VERIF_REPO", "/repo"))
    sys.path.insert(0, repo)
    with atheris.instrument_imports(include=["j1939"]):
        import j1939  # noqa: F401  (instrumented for coverage feedback)
    from vlib import world as W
    W.load()
    from checks import get_check
    from vlib import runner
    chk = get_check("C07")
    known = runner.load_known("C07")
    import hypothesis
    from hypothesis import given, settings, HealthCheck

    state = {"crashes": [], "nontrivial": 0, "execs": 0}
    buckets = set()

    def dump():
        with open(statefile + ".tmp", "w") as f:
            json.dump(state, f, default=runner._default)
        os.replace(statefile + ".tmp", statefile)

    @settings(database=None, deadline=None, suppress_health_check=list(HealthCheck))
    @given(chk.strategy("thorough"))
    def prop(params):
        state["execs"] += 1
        res = chk.run_case(params)
        if res.get("nontrivial"):
            state["nontrivial"] += 1
        for v in res.get("violations", ()):
            if runner.match_known(known, v["bucket"]) is None and v["bucket"] not in buckets:
                buckets.add(v["bucket"])
                state["crashes"].append({"params": params, "violation": v})
                dump()
        if state["execs"] % 100 == 0:
            dump()

    fuzz_one = prop.hypothesis.fuzz_one_input

    def target(data):
        fuzz_one(data)

    dump()
    # seed corpus: a few long deterministic byte strings, so that Hypothesis has enough bytes to decode whole scenarios
    import hashlib
    for i in range(8):
        blob = b"".join(hashlib.blake2b(b"c07-%d-%d-%d" % (seed, i, k), digest_size=64).digest() for k in range(64 + 32 * i))
        with open(os.path.join(corpus, "seed%d" % i), "wb") as f:
            f.write(blob)
    argv = [sys.argv[0], corpus, "-runs=%d" % runs, "-seed=%d" % (seed or 1), "-max_len=16384", "-len_control=0", "-print_final_stats=1",
            "-artifact_prefix=%s/" % workdir, "-rss_limit_mb=4096"]
    atheris.Setup(argv, target)
    atheris.Fuzz()          # does not return


def parent():
    import subprocess
    workdir = sys.argv[1]
    os.makedirs(workdir, exist_ok=True)
    statefile = os.path.join(workdir, "state.json")
    r = subprocess.run([sys.executable] + sys.argv, capture_output=True, text=True, env=dict(os.environ, FUZZ_C07_CHILD="1"))
    err = r.stderr
    execs = cov = ft = None
    m = re.findall(r"stat::number_of_executed_units:\s*(\d+)", err)
    if m:
        execs = int(m[-1])
    m = re.findall(r"cov: (\d+) ft: (\d+)", err)
    if m:
        cov, ft = int(m[-1][0]), int(m[-1][1])
    st = json.load(open(statefile)) if os.path.exists(statefile) else {}
    print(json.dumps({"execs": execs if execs is not None else st.get("execs"), "cov": cov, "ft": ft, "rc": r.returncode,
                      "crashes": st.get("crashes", []), "nontrivial": st.get("nontrivial", 0),
                      "stderr_tail": "" if r.returncode == 0 else err[-600:]}))


if __name__ == "__main__":
    if os.environ.get("FUZZ_C07_CHILD") == "1":
        child()
    else:
        parent()
