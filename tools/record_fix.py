#!/venv/bin/python
"""Record a repaired defect: tools/record_fix.py <property> <id> <replay json> <corpus file name> "<what failed>"
Copies the shrunk replay into corpus/<property>/ and appends a 'fixed' entry with /repo's HEAD to known_findings.json."""
import json
import os
import shutil
import subprocess
import sys

HERE = os.path.dirname(os.path.abspath(__file__))
VERIF = os.path.dirname(HERE)
prop, did, replay, name, what = sys.argv[1:6]
commit = subprocess.run(["git", "-C", "/repo", "rev-parse", "--short", "HEAD"], capture_output=True, text=True).stdout.strip()
os.makedirs(os.path.join(VERIF, "corpus", prop), exist_ok=True)
dst = os.path.join("corpus", prop, name)
shutil.copy(replay, os.path.join(VERIF, dst))
p = os.path.join(VERIF, "known_findings.json")
k = json.load(open(p))
k["findings"].append({"property": prop, "id": did, "status": "fixed", "commit": commit,
                      "what": "fixed: property=%s %s %s" % (prop, commit, what), "regression": dst})
json.dump(k, open(p, "w"), indent=1)
print("recorded", did, commit, dst)
