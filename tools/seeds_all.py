#!/venv/bin/python
"""Re-run every seeded change (seeded/*/patch.diff) against the quick check of the property it breaks, at several seeds.

usage: tools/seeds_all.py [--seeds 0,1,2] [--only C12] [--jobs 4]
Each change is applied to a scratch copy of the repository under /tmp (never to /repo), the check runs with
VERIF_REPO=<copy>, the copy is removed.  Prints one markdown row per change; exit 1 if a change is missed at any seed."""
import concurrent.futures as cf
import glob
import json
import os
import shutil
import subprocess
import sys
import time

HERE = os.path.dirname(os.path.abspath(__file__))
VERIF = os.path.dirname(HERE)
REPO = os.environ.get("VERIF_REPO", "/repo")


def one(name, prop, seeds, nproc):
    wt = "/tmp/seedrun_%s_%d" % (name, os.getpid())
    shutil.rmtree(wt, ignore_errors=True)
    shutil.copytree(REPO, wt, ignore=shutil.ignore_patterns(".git", "__pycache__", "*.pyc"))
    res = []
    try:
        r = subprocess.run(["git", "apply", os.path.join(VERIF, "seeded", name, "patch.diff")], cwd=wt, capture_output=True, text=True)
        if r.returncode:
            return name, prop, [("apply", "ERROR", r.stderr.strip()[:100], 0)]
        for sd in seeds:
            t0 = time.time()
            out = wt + "_out"
            r = subprocess.run(["/venv/bin/python", os.path.join(VERIF, "check.py"), prop, "--tier", "quick"], cwd=VERIF,
                               capture_output=True, text=True,
                               env=dict(os.environ, VERIF_REPO=wt, VERIF_OUT=out, VERIF_SEED=str(sd), VERIF_NPROC=str(nproc)))
            b = [l.strip()[8:] for l in r.stdout.splitlines() if l.startswith("  bucket:")]
            res.append((sd, {1: "CAUGHT", 0: "MISSED"}.get(r.returncode, "ERROR"), ",".join(b[:2]), round(time.time() - t0)))
            shutil.rmtree(out, ignore_errors=True)
    finally:
        shutil.rmtree(wt, ignore_errors=True)
    return name, prop, res


def main():
    seeds = [0, 1, 2]
    only = None
    jobs = 4
    a = sys.argv[1:]
    while a:
        x = a.pop(0)
        if x == "--seeds":
            seeds = [int(v) for v in a.pop(0).split(",")]
        elif x == "--only":
            only = a.pop(0)
        elif x == "--jobs":
            jobs = int(a.pop(0))
    todo = []
    for p in sorted(glob.glob(os.path.join(VERIF, "seeded", "*", "meta.json"))):
        m = json.load(open(p))
        if only and m["property"] != only:
            continue
        if m.get("superseded"):
            print("| `%s` | %s | SUPERSEDED: %s |" % (m["name"], m["property"], m["superseded"][:110]))
            continue
        todo.append((m["name"], m["property"]))
    nproc = max(2, 16 // jobs)
    bad = 0
    print("| seeded change | check | " + " | ".join("seed %d" % s for s in seeds) + " | first bucket |")
    print("|---|---|" + "---|" * (len(seeds) + 1))
    with cf.ThreadPoolExecutor(jobs) as ex:
        for name, prop, res in ex.map(lambda t: one(t[0], t[1], seeds, nproc), todo):
            cells = " | ".join("%s (%ss)" % (v, s) for (_, v, _, s) in res)
            first = next((b for (_, v, b, _) in res if b), "")
            if any(v != "CAUGHT" for (_, v, _, _) in res):
                bad += 1
            print("| `%s` | %s | %s | %s |" % (name, prop, cells, first), flush=True)
    print("seeded changes: %d, not caught at every seed: %d" % (len(todo), bad))
    return 1 if bad else 0


if __name__ == "__main__":
    sys.exit(main())
