#!/bin/bash
# Full validation pass (DESIGN.md section 11): stability of the quick tier over 6 seeds, every seeded change at 3 seeds,
# benign refactorings, the mutant table, and the thorough tier once.  Prints everything to stdout.
cd "$(dirname "$0")/.."
echo "=== STABILITY quick"; /venv/bin/python tools/stability.py
echo "=== SEEDS"; /venv/bin/python tools/seeds_all.py --seeds 0,1,2
echo "=== BENIGN"; /venv/bin/python tools/benign_all.py
echo "=== MUTANTS"; /venv/bin/python tools/mutate_all.py
echo "=== THOROUGH"; /venv/bin/python tools/stability.py --tier thorough --seeds 1
echo "=== DONE"
