#!/venv/bin/python
"""No-false-alarm protocol: apply each benign refactoring (property still holds) and run ALL quick checks; every one must exit 0."""
import json
import os
import subprocess
import sys

HERE = os.path.dirname(os.path.abspath(__file__))
VERIF = os.path.dirname(HERE)
sys.path.insert(0, HERE)
from mutants import BENIGN

RENAMES = [("_multi_pg_snd_buffer", "_mpg_pending"), ("_snd_buffer", "_tx_sessions"), ("_rcv_buffer", "_rx_sessions"),
           ("_timer_events", "_timers"), ("_subscribers", "_listeners"), ("_job_thread_wakeup_queue", "_wakeup_q")]


def make_rename_patch(path):
    """Package-wide rename of private attributes, regenerated from the current /repo (a static patch goes stale)."""
    import re
    import shutil
    import tempfile
    repo = os.environ.get("VERIF_REPO", "/repo")
    tmp = tempfile.mkdtemp(prefix="rename_")
    try:
        for side in ("a", "b"):
            shutil.copytree(os.path.join(repo, "j1939"), os.path.join(tmp, side, "j1939"), ignore=shutil.ignore_patterns("__pycache__"))
        for root, _, files in os.walk(os.path.join(tmp, "b")):
            for f in files:
                if f.endswith(".py"):
                    fp = os.path.join(root, f)
                    txt = open(fp).read()
                    for old, new in RENAMES:
                        txt = re.sub(r"(?<![A-Za-z0-9_])" + re.escape(old) + r"(?![A-Za-z0-9_])", new, txt)
                    open(fp, "w").write(txt)
        r = subprocess.run(["diff", "-ruN", "a/j1939", "b/j1939"], cwd=tmp, capture_output=True, text=True)
        os.makedirs(os.path.dirname(path), exist_ok=True)
        open(path, "w").write(r.stdout)
    finally:
        shutil.rmtree(tmp, ignore_errors=True)


ids = [c["property_id"] for c in json.load(open(os.path.join(VERIF, "MANIFEST.json")))["checks"]]
names = [a for a in sys.argv[1:] if not a.startswith("--")] or (list(BENIGN) + ["patch:rename_private_attrs"])
bad = 0
for name in names:
    if name == "patch:rename_private_attrs":
        make_rename_patch(os.path.join(HERE, "benign", name[6:], "patch.diff"))
    if name.startswith("patch:"):
        cmd = ["/venv/bin/python", os.path.join(HERE, "mutate.py"), "--suite", "--patch", os.path.join(HERE, "benign", name[6:], "patch.diff")] + ids
    else:
        cmd = ["/venv/bin/python", os.path.join(HERE, "mutate.py"), "--suite", name] + ids
    r = subprocess.run(cmd, capture_output=True, text=True)
    res = []
    for l in r.stdout.splitlines():
        if l.startswith("suite on mutant"):
            print("  " + l, flush=True)
        if l.startswith("mutant ") and " check " in l:
            parts = l.split()
            cid = parts[3].rstrip(":")
            rc = [p for p in parts if p.startswith("rc=")][0]
            res.append((cid, rc))
            if rc != "rc=0":
                bad += 1
                print("  FALSE ALARM / ERROR: " + l, flush=True)
    print("%-34s %s" % (name, " ".join("%s:%s" % (c, rc[3:]) for c, rc in res)), flush=True)
    if not res:
        print(r.stdout[-600:], r.stderr[-300:])
print("benign refactorings: %d alarm(s)/error(s)" % bad)
sys.exit(1 if bad else 0)
