#!/venv/bin/python
"""Run every mutant of tools/mutants.py against the checks it is expected to be killed by; print a table."""
import os
import subprocess
import sys
import re

HERE = os.path.dirname(os.path.abspath(__file__))
sys.path.insert(0, HERE)
from mutants import MUTANTS

suite = "--suite" in sys.argv
names = [a for a in sys.argv[1:] if not a.startswith("--")] or list(MUTANTS)
rows = []
for name in names:
    exp = MUTANTS[name]["expect"]
    cmd = ["/venv/bin/python", os.path.join(HERE, "mutate.py")] + (["--suite"] if suite else []) + [name] + exp
    r = subprocess.run(cmd, capture_output=True, text=True, timeout=3600)
    res = {}
    for l in r.stdout.splitlines():
        m = re.match(r"mutant\s+\S+\s+check (C\d+): rc=(\d+) in ([\d.]+)s (\w+)", l)
        if m:
            res[m.group(1)] = (m.group(4), float(m.group(3)))
        if l.startswith("suite on mutant"):
            res["suite"] = l.split(":", 1)[1].strip()
    row = "| %s | %s | %s |%s" % (name, MUTANTS[name]["doc"], ", ".join("%s %s (%.0fs)" % (c, res.get(c, ("?", 0))[0], res.get(c, ("?", 0))[1]) for c in exp),
                                 (" %s |" % res.get("suite", "")) if suite else "")
    print(row, flush=True)
