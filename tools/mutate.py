#!/venv/bin/python
"""Sensitivity protocol (DESIGN.md section 7): apply one mutant to a scratch copy of /repo,
optionally confirm the pinned suite still passes, run the named checks against it.

usage: tools/mutate.py [--suite] [--tier quick] <mutant> <check id>...
       tools/mutate.py --list
       tools/mutate.py --patch file.diff <check id>...      (a seeded change kept under seeded/)
Scratch copies live under /tmp and are removed afterwards.
"""
import os
import sys
import shutil
import subprocess
import tempfile
import time

HERE = os.path.dirname(os.path.abspath(__file__))
VERIF = os.path.dirname(HERE)
sys.path.insert(0, HERE)


def main():
    args = sys.argv[1:]
    suite = False
    tier = "quick"
    patch = None
    while args and args[0].startswith("--"):
        a = args.pop(0)
        if a == "--suite":
            suite = True
        elif a == "--tier":
            tier = args.pop(0)
        elif a == "--patch":
            patch = args.pop(0)
        elif a == "--list":
            from mutants import MUTANTS
            for k, v in MUTANTS.items():
                print(k, "->", v.get("expect"), "-", v.get("doc", ""))
            return 0
    from mutants import MUTANTS
    if patch:
        name = os.path.basename(os.path.dirname(os.path.abspath(patch))) or "patch"
        checks = args
    else:
        name = args.pop(0)
        checks = args or MUTANTS[name].get("expect", [])
    repo = os.environ.get("VERIF_REPO_SRC", "/repo")
    scratch = tempfile.mkdtemp(prefix="mut_%s_" % name, dir="/tmp")
    try:
        dst = os.path.join(scratch, "repo")
        shutil.copytree(repo, dst, ignore=shutil.ignore_patterns(".git", "__pycache__", "*.egg-info", "docs", ".pytest_cache"))
        if patch:
            r = subprocess.run(["patch", "-p1", "-d", dst, "-i", os.path.abspath(patch)], capture_output=True, text=True)
            if r.returncode != 0:
                print("patch failed:", r.stdout, r.stderr)
                return 2
        else:
            for (fn, old, new) in MUTANTS[name]["edits"]:
                p = os.path.join(dst, fn)
                s = open(p).read()
                if s.count(old) != 1:
                    print("mutant %s: pattern occurs %d times in %s" % (name, s.count(old), fn))
                    return 2
                open(p, "w").write(s.replace(old, new))
        rc_suite = None
        if suite:
            r = subprocess.run(["/venv/bin/python", "-m", "pytest", "-q", "-x", "-p", "no:cacheprovider", "--timeout=900"],
                               cwd=dst, capture_output=True, text=True, env=dict(os.environ, PYTHONPATH=dst))
            rc_suite = r.returncode
            print("suite on mutant %s: rc=%d %s" % (name, rc_suite, r.stdout.strip().splitlines()[-1] if r.stdout.strip() else ""))
        out = os.path.join(scratch, "out")
        os.makedirs(out)
        res = {}
        for cid in checks:
            t0 = time.time()
            r = subprocess.run(["/venv/bin/python", os.path.join(VERIF, "check.py"), cid, "--tier", tier],
                               cwd=VERIF, capture_output=True, text=True,
                               env=dict(os.environ, VERIF_REPO=dst, VERIF_OUT=out))
            lines = [l for l in r.stdout.splitlines() if l.startswith("VIOLATION") or l.startswith("  bucket") or l.startswith("HARNESS")]
            res[cid] = r.returncode
            print("mutant %-28s check %s: rc=%d in %.1fs %s" % (name, cid, r.returncode, time.time() - t0,
                                                                 "KILLED" if r.returncode == 1 else ("SURVIVED" if r.returncode == 0 else "ERROR")))
            for l in [x for x in r.stdout.splitlines() if x.startswith("  ")][:0] + lines[:6]:
                print("    " + l[:220])
            if r.returncode == 2:
                print(r.stdout[-1500:], r.stderr[-1500:])
        return 0
    finally:
        shutil.rmtree(scratch, ignore_errors=True)


if __name__ == "__main__":
    sys.exit(main())
