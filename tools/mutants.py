"""Mutants for the sensitivity protocol: realistic slips that still pass the pinned suite.
Each: edits = [(file, old, new)], expect = checks that should kill it."""
MUTANTS = {}


def M(name, expect, doc, *edits):
    MUTANTS[name] = {"expect": expect, "doc": doc, "edits": list(edits)}


M("tp21_send_before_state", ["C01", "C08"], "J1939-21: DT sent before the send state is advanced",
  ("j1939/j1939_21.py",
   """                            buf['next_packet_to_send'] += 1

                            should_break = False""",
   """                            self._J1939_21__send_tp_dt(buf['src_address'], buf['dest_address'], data)
                            buf['next_packet_to_send'] += 1

                            should_break = False"""),
  ("j1939/j1939_21.py",
   """                            # state is ready for recv - Now send the message
                            self.__send_tp_dt(buf['src_address'], buf['dest_address'], data)
                            if should_break:""",
   """                            # state is ready for recv - Now send the message
                            if should_break:"""))

M("tp21_packets_off_by_one_mod7", ["C01", "C03"], "packet count one too many when len % 7 == 0",
  ("j1939/j1939_21.py",
   "num_packets = int(message_size / 7) if (message_size % 7 == 0) else int(message_size / 7) + 1",
   "num_packets = int(message_size / 7) + 1"))

M("tp21_rcv_key_without_sa", ["C01"], "receive buffer keyed by destination only",
  ("j1939/j1939_21.py",
   "        return ((src_address & 0xFF) << 8) | (dest_address & 0xFF)",
   "        return (dest_address & 0xFF)"))

M("tp21_cts_no_remaining_clamp", ["C01", "C09", "C03"], "CTS grant without the 'remaining' clamp",
  ("j1939/j1939_21.py",
   "number_of_packets_that_can_be_sent = min( self._rcv_buffer[buffer_hash]['num_packages_max_rec'], self._rcv_buffer[buffer_hash]['num_packages'] - self._rcv_buffer[buffer_hash]['next_packet'] )",
   "number_of_packets_that_can_be_sent = self._rcv_buffer[buffer_hash]['num_packages_max_rec']"))

M("timer_drift", ["C12"], "periodic deadline = now + delta (drift)",
  ("j1939/electronic_control_unit.py",
   """                        while event['deadline'] <= now:
                            # just to take care of overruns
                            event['deadline'] += event['delta_time']""",
   """                        event['deadline'] = time.time() + event['delta_time'] + 0.0005"""))

M("timer_remove_first_only", ["C12"], "remove_timer removes only the first registration",
  ("j1939/electronic_control_unit.py",
   "        self._timer_events[:] = [event for event in self._timer_events if event['callback'] != callback]",
   """        for event in self._timer_events:
            if event['callback'] == callback:
                self._timer_events.remove(event)
                break"""))

M("timer_no_wakeup_on_add", ["C12"], "add_timer does not wake the job thread",
  ("j1939/electronic_control_unit.py",
   """        self._timer_events.append( d )
        self._job_thread_wakeup()""",
   """        self._timer_events.append( d )"""))

M("name_function_instance_shift", ["C15"], "function_instance << 36 in the value getter",
  ("j1939/name.py", "retval += (self.function_instance << 35)", "retval += (self.function_instance << 36)"))
M("name_mfr_mask", ["C15"], "manufacturer code parsed with a 10-bit mask",
  ("j1939/name.py", "self.manufacturer_code = (value >> 21) & ((2 ** 11) - 1)", "self.manufacturer_code = (value >> 21) & ((2 ** 10) - 1)"))
M("pgn_pdu1_boundary", ["C15"], "PDU1 includes PF 240",
  ("j1939/parameter_group_number.py", "return True if self.pdu_format>=0 and self.pdu_format<=239 else False", "return True if self.pdu_format>=0 and self.pdu_format<=240 else False"))
M("id_sa_254_to_255", ["C15"], "identifier parse maps one magic source address",
  ("j1939/message_id.py", "        self.source_address = can_id & 0xFF\n", "        self.source_address = can_id & 0xFF\n        if can_id == 0x0CF00417: self.source_address = 0x18\n"))
M("name_bytes_big_endian_tail", ["C15", "C04"], "NAME byte 7 taken from bits 48..55",
  ("j1939/name.py", "((self.value >> 56) & 0xFF)\n", "((self.value >> 48) & 0xFF)\n"))

M("tp21_no_abort_on_rcv_timeout", ["C06"], "J1939-21 receive time-out drops the session without abort",
  ("j1939/j1939_21.py",
   "                        self.__send_tp_abort(buf['dest_address'], buf['src_address'], self.ConnectionAbortReason.TIMEOUT, buf['pgn'])\n                    # TODO: should we notify our CAs about the cancelled transfer?\n                    del self._rcv_buffer[bufid]",
   "                        pass\n                    # TODO: should we notify our CAs about the cancelled transfer?\n                    del self._rcv_buffer[bufid]"))
M("tp21_t2_12s", ["C06"], "T2 = 12.5 s",
  ("j1939/j1939_21.py", "        T2 = 1.250\n", "        T2 = 12.50\n"))
M("tp21_abort_reason_in_wrong_byte", ["C03", "C06"], "Abort frame: PGN bytes shifted (reason in byte 2)",
  ("j1939/j1939_21.py",
   "data = [self.ConnectionMode.ABORT, reason, 0xFF, 0xFF, 0xFF, pgn_value & 0xFF, (pgn_value >> 8) & 0xFF, (pgn_value >> 16) & 0xFF]",
   "data = [self.ConnectionMode.ABORT, 0xFF, reason, 0xFF, 0xFF, (pgn_value >> 8) & 0xFF, pgn_value & 0xFF, (pgn_value >> 16) & 0xFF]"))
M("tp22_eoms_no_completeness", ["C06"], "FD EOMS delivers without completeness check (D12 reverted)",
  ("j1939/j1939_22.py",
   " and (len(self._rcv_buffer[buffer_hash]['data']) == message_size):", ":"))
M("tp21_bam_rcv_timeout_keeps_buffer", ["C06", "C07"], "BAM receive time-out does not delete the buffer when dest is global",
  ("j1939/j1939_21.py",
   "                    # TODO: should we notify our CAs about the cancelled transfer?\n                    del self._rcv_buffer[bufid]",
   "                        del self._rcv_buffer[bufid]\n                    else:\n                        buf['deadline'] = 0"))
M("tp22_snd_timeout_no_release", ["C06", "C10"], "FD originator CTS time-out keeps the send buffer",
  ("j1939/j1939_22.py",
   "                        self.__send_tp_abort(buf['src_address'], buf['dest_address'], buf['session'], self.ConnectionAbortReason.TIMEOUT, buf['pgn'])\n                        del self._snd_buffer[bufid]",
   "                        self.__send_tp_abort(buf['src_address'], buf['dest_address'], buf['session'], self.ConnectionAbortReason.TIMEOUT, buf['pgn'])\n                        buf['deadline'] = 0"))

M("tp21_no_key_snapshot", ["C08"], "job pass iterates the live send dict (no list() snapshot)",
  ("j1939/j1939_21.py", "        for bufid in list(self._snd_buffer):", "        for bufid in self._snd_buffer:"))
M("tp22_send_before_state", ["C08"], "FD: EOM status sent before the state is advanced (D4 partially reverted)",
  ("j1939/j1939_22.py",
   """                                buf['deadline'] = time.time() + self.Timeout.T5
                                buf['state'] = self.SendBufferState.WAITING_EOM_ACK
                                send_eom_status = True
                                should_break = True""",
   """                                self._J1939_22__send_tp_dt(buf['src_address'], buf['dest_address'], buf['session'], package+1, buf['data'][package])
                                self._J1939_22__send_tp_eom_status(buf['src_address'], buf['dest_address'], buf['session'], buf['message_size'], buf['num_segments'], buf['pgn'])
                                buf['deadline'] = time.time() + self.Timeout.T5
                                buf['state'] = self.SendBufferState.WAITING_EOM_ACK
                                break"""))
M("tp21_rcv_index_live", ["C08"], "rcv pass indexes the live dict again (D22 reverted)",
  ("j1939/j1939_21.py", "            buf = self._rcv_buffer.get(bufid)\n", "            buf = self._rcv_buffer[bufid]\n"))
