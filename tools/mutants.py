"""Mutants for the sensitivity protocol: realistic slips that still pass the pinned suite.
Each: edits = [(file, old, new)], expect = checks that should kill it."""
MUTANTS = {}


def M(name, expect, doc, *edits):
    MUTANTS[name] = {"expect": expect, "doc": doc, "edits": list(edits)}


M("tp21_send_before_state", ["C01", "C08"], "J1939-21: DT sent before the send state is advanced",
  ("j1939/j1939_21.py",
   """                            buf['next_packet_to_send'] += 1
                            buf['last_dt_time'] = time.time()

                            should_break = False
                            if package == buf['next_wait_on_cts']:""",
   """                            self._J1939_21__send_tp_dt(buf['src_address'], buf['dest_address'], data)
                            buf['next_packet_to_send'] += 1
                            buf['last_dt_time'] = time.time()

                            should_break = False
                            if package == buf['next_wait_on_cts']:"""),
  ("j1939/j1939_21.py",
   """                            # state is ready for recv - Now send the message
                            self.__send_tp_dt(buf['src_address'], buf['dest_address'], data)
                            if self._minimum_tp_rts_cts_dt_interval != None:""",
   """                            # state is ready for recv - Now send the message
                            if self._minimum_tp_rts_cts_dt_interval != None:"""))

M("tp21_packets_off_by_one_mod7", ["C01", "C03"], "packet count one too many when len % 7 == 0",
  ("j1939/j1939_21.py",
   "num_packets = int(message_size / 7) if (message_size % 7 == 0) else int(message_size / 7) + 1",
   "num_packets = int(message_size / 7) + 1"))

M("tp21_rcv_key_without_sa", ["C01"], "receive buffer keyed by destination only",
  ("j1939/j1939_21.py",
   "        return ((src_address & 0xFF) << 8) | (dest_address & 0xFF)",
   "        return (dest_address & 0xFF)"))

M("tp21_cts_no_remaining_clamp", ["C01", "C09", "C03"], "CTS grant without the 'remaining' clamp",
  ("j1939/j1939_21.py",
   "number_of_packets_that_can_be_sent = min( self._rcv_buffer[buffer_hash]['num_packages_max_rec'], self._rcv_buffer[buffer_hash]['num_packages'] - self._rcv_buffer[buffer_hash]['next_packet'] )",
   "number_of_packets_that_can_be_sent = self._rcv_buffer[buffer_hash]['num_packages_max_rec']"))

M("timer_drift", ["C12"], "periodic deadline = now + delta (drift)",
  ("j1939/electronic_control_unit.py",
   """                        while event['deadline'] <= now:
                            # just to take care of overruns
                            event['deadline'] += event['delta_time']""",
   """                        event['deadline'] = time.time() + event['delta_time'] + 0.0005"""))

M("timer_remove_first_only", ["C12"], "remove_timer removes only the first registration",
  ("j1939/electronic_control_unit.py",
   "        self._timer_events[:] = [event for event in self._timer_events if event['callback'] != callback]",
   """        for event in self._timer_events:
            if event['callback'] == callback:
                self._timer_events.remove(event)
                break"""))

M("timer_no_wakeup_on_add", ["C12"], "add_timer does not wake the job thread",
  ("j1939/electronic_control_unit.py",
   """        self._timer_events.append( d )
        self._job_thread_wakeup()""",
   """        self._timer_events.append( d )"""))

M("name_function_instance_shift", ["C15"], "function_instance << 36 in the value getter",
  ("j1939/name.py", "retval += (self.function_instance << 35)", "retval += (self.function_instance << 36)"))
M("name_mfr_mask", ["C15"], "manufacturer code parsed with a 10-bit mask",
  ("j1939/name.py", "self.manufacturer_code = (value >> 21) & ((2 ** 11) - 1)", "self.manufacturer_code = (value >> 21) & ((2 ** 10) - 1)"))
M("pgn_pdu1_boundary", ["C15"], "PDU1 includes PF 240",
  ("j1939/parameter_group_number.py", "return True if self.pdu_format>=0 and self.pdu_format<=239 else False", "return True if self.pdu_format>=0 and self.pdu_format<=240 else False"))
M("id_sa_254_to_255", ["C15"], "identifier parse maps one magic source address",
  ("j1939/message_id.py", "        self.source_address = can_id & 0xFF\n", "        self.source_address = can_id & 0xFF\n        if can_id == 0x0CF00417: self.source_address = 0x18\n"))
M("name_bytes_big_endian_tail", ["C15", "C04"], "NAME byte 7 taken from bits 48..55",
  ("j1939/name.py", "((self.value >> 56) & 0xFF)\n", "((self.value >> 48) & 0xFF)\n"))

M("tp21_no_abort_on_rcv_timeout", ["C06"], "J1939-21 receive time-out drops the session without abort",
  ("j1939/j1939_21.py",
   "                        self.__send_tp_abort(buf['dest_address'], buf['src_address'], self.ConnectionAbortReason.TIMEOUT, buf['pgn'])\n                    # TODO: should we notify our CAs about the cancelled transfer?\n                    with self._rcv_lock:",
   "                        pass\n                    # TODO: should we notify our CAs about the cancelled transfer?\n                    with self._rcv_lock:"))
M("tp21_t2_12s", ["C06"], "T2 = 12.5 s",
  ("j1939/j1939_21.py", "        T2 = 1.250\n", "        T2 = 12.50\n"))
M("tp21_abort_reason_in_wrong_byte", ["C03", "C06"], "Abort frame: PGN bytes shifted (reason in byte 2)",
  ("j1939/j1939_21.py",
   "data = [self.ConnectionMode.ABORT, reason, 0xFF, 0xFF, 0xFF, pgn_value & 0xFF, (pgn_value >> 8) & 0xFF, (pgn_value >> 16) & 0xFF]",
   "data = [self.ConnectionMode.ABORT, 0xFF, reason, 0xFF, 0xFF, (pgn_value >> 8) & 0xFF, pgn_value & 0xFF, (pgn_value >> 16) & 0xFF]"))
M("tp22_eoms_no_completeness", ["C06"], "FD EOMS delivers without completeness check (D12 reverted)",
  ("j1939/j1939_22.py",
   " and (len(self._rcv_buffer[buffer_hash]['data']) == message_size):", ":"))
M("tp21_bam_rcv_timeout_keeps_buffer", ["C06", "C07"], "BAM receive time-out does not delete the buffer when dest is global",
  ("j1939/j1939_21.py",
   "                            # (not a session the receive path has opened for this pair in the meantime)\n                            self._rcv_buffer.pop(bufid, None)",
   "                            if buf['dest_address'] != ParameterGroupNumber.Address.GLOBAL:\n                                self._rcv_buffer.pop(bufid, None)\n                            else:\n                                buf['deadline'] = 0"))
M("tp22_snd_timeout_no_release", ["C06", "C10"], "FD originator CTS time-out keeps the send buffer",
  ("j1939/j1939_22.py",
   "                        self.__send_tp_abort(buf['src_address'], buf['dest_address'], buf['session'], self.ConnectionAbortReason.TIMEOUT, buf['pgn'])\n                        del self._snd_buffer[bufid]",
   "                        self.__send_tp_abort(buf['src_address'], buf['dest_address'], buf['session'], self.ConnectionAbortReason.TIMEOUT, buf['pgn'])\n                        buf['deadline'] = 0"))

M("tp21_no_key_snapshot", ["C08"], "job pass iterates the live send dict (no list() snapshot)",
  ("j1939/j1939_21.py", "        for bufid in list(self._snd_buffer):", "        for bufid in self._snd_buffer:"))
M("tp22_send_before_state", ["C08"], "FD: EOM status sent before the state is advanced (D4 partially reverted)",
  ("j1939/j1939_22.py",
   """                                buf['deadline'] = time.time() + self.Timeout.T5
                                buf['state'] = self.SendBufferState.WAITING_EOM_ACK
                                send_eom_status = True
                                should_break = True""",
   """                                self._J1939_22__send_tp_dt(buf['src_address'], buf['dest_address'], buf['session'], package+1, buf['data'][package])
                                self._J1939_22__send_tp_eom_status(buf['src_address'], buf['dest_address'], buf['session'], buf['message_size'], buf['num_segments'], buf['pgn'])
                                buf['deadline'] = time.time() + self.Timeout.T5
                                buf['state'] = self.SendBufferState.WAITING_EOM_ACK
                                break"""))
M("tp21_rcv_index_live", ["C08"], "rcv pass indexes the live dict again (D22 reverted)",
  ("j1939/j1939_21.py", "            buf = self._rcv_buffer.get(bufid)\n", "            buf = self._rcv_buffer[bufid]\n"))

M("tp21_padding_zero", ["C03"], "J1939-21 last packet padded with 0x00",
  ("j1939/j1939_21.py",
   """                            else:
                                while len(data)<7:
                                    data.append(255)
                            data.insert(0, package+1)""",
   """                            else:
                                while len(data)<7:
                                    data.append(0)
                            data.insert(0, package+1)"""))
M("tp21_pgn_big_endian_symmetric", ["C03"], "TP.CM PGN encoded and decoded big-endian (symmetric)",
  ("j1939/j1939_21.py", "        pgn = data[5] | (data[6] << 8) | (data[7] << 16)\n", "        pgn = data[7] | (data[6] << 8) | (data[5] << 16)\n"),
  ("j1939/j1939_21.py",
   "data = [self.ConnectionMode.RTS, message_size & 0xFF, (message_size >> 8) & 0xFF, num_packets, max_cmdt_packets, pgn_value & 0xFF, (pgn_value >> 8) & 0xFF, (pgn_value >> 16) & 0xFF]",
   "data = [self.ConnectionMode.RTS, message_size & 0xFF, (message_size >> 8) & 0xFF, num_packets, max_cmdt_packets, (pgn_value >> 16) & 0xFF, (pgn_value >> 8) & 0xFF, pgn_value & 0xFF]"),
  ("j1939/j1939_21.py",
   "data = [self.ConnectionMode.CTS, num_packets, next_packet, 0xFF, 0xFF, pgn_value & 0xFF, (pgn_value >> 8) & 0xFF, (pgn_value >> 16) & 0xFF]",
   "data = [self.ConnectionMode.CTS, num_packets, next_packet, 0xFF, 0xFF, (pgn_value >> 16) & 0xFF, (pgn_value >> 8) & 0xFF, pgn_value & 0xFF]"),
  ("j1939/j1939_21.py",
   "data = [self.ConnectionMode.EOM_ACK, message_size & 0xFF, (message_size >> 8) & 0xFF, num_packets, 0xFF, pgn_value & 0xFF, (pgn_value >> 8) & 0xFF, (pgn_value >> 16) & 0xFF]",
   "data = [self.ConnectionMode.EOM_ACK, message_size & 0xFF, (message_size >> 8) & 0xFF, num_packets, 0xFF, (pgn_value >> 16) & 0xFF, (pgn_value >> 8) & 0xFF, pgn_value & 0xFF]"))
M("tp22_size_byteorder_symmetric", ["C03"], "FD size field byte order swapped in encoder and decoder",
  ("j1939/j1939_22.py",
   "        data[1]  = (  message_size & 0xFF )\n        data[2]  = ( (message_size >> 8)  & 0xFF )\n        data[3]  = ( (message_size >> 16) & 0xFF )",
   "        data[3]  = (  message_size & 0xFF )\n        data[2]  = ( (message_size >> 8)  & 0xFF )\n        data[1]  = ( (message_size >> 16) & 0xFF )"),
  ("j1939/j1939_22.py",
   "        message_size  = (data[1]  & 0xFF) | ((data[2]  & 0xFF) << 8) | ((data[3] & 0xFF)  << 16)",
   "        message_size  = (data[3]  & 0xFF) | ((data[2]  & 0xFF) << 8) | ((data[1] & 0xFF)  << 16)"))
M("tp21_eomack_packets_wrong", ["C03"], "EndOfMsgACK reports packets-1",
  ("j1939/j1939_21.py",
   "self.__send_tp_eom_ack(dest_address, src_address, self._rcv_buffer[buffer_hash]['message_size'], self._rcv_buffer[buffer_hash]['num_packages'], self._rcv_buffer[buffer_hash]['pgn'])",
   "self.__send_tp_eom_ack(dest_address, src_address, self._rcv_buffer[buffer_hash]['message_size'], self._rcv_buffer[buffer_hash]['num_packages'] - 1, self._rcv_buffer[buffer_hash]['pgn'])"))
M("tp22_dt_segment_zero_based_symmetric", ["C03"], "FD segment numbers 0-based in sender and receiver",
  ("j1939/j1939_22.py", "        # build the frame from a copy: the segment stays in the send buffer and may be requested again\n", "        segment_num -= 1\n"),
  ("j1939/j1939_22.py", "        segment_num = (data[1] & 0xFF) | ((data[2]  & 0xFF) << 8) | ((data[3] & 0xFF)  << 16)\n\n        if segment_num == 0:",
   "        segment_num = ((data[1] & 0xFF) | ((data[2]  & 0xFF) << 8) | ((data[3] & 0xFF)  << 16)) + 1\n\n        if segment_num == 0:"))
M("id_priority_shift", ["C03", "C15"], "priority at bit 25",
  ("j1939/message_id.py", "return (self.priority << 26) | (self.parameter_group_number << 8) | (self.source_address)", "return (self.priority << 25) | (self.parameter_group_number << 8) | (self.source_address)"))

M("tp21_bam_interval_ignored", ["C09"], "BAM packets sent without the interval",
  ("j1939/j1939_21.py", "                            buf['deadline'] = time.time() + self._minimum_tp_bam_dt_interval\n                            # recalc next wakeup",
   "                            buf['deadline'] = time.time()\n                            # recalc next wakeup"))
M("tp21_bam_deadline_from_pass_start", ["C09"], "J1939-21 BAM spacing measured from the start of the job pass (shows with two CAs broadcasting at once and slow frame writes)",
  ("j1939/j1939_21.py", "                            buf['deadline'] = time.time() + self._minimum_tp_bam_dt_interval\n                            # recalc next wakeup",
   "                            buf['deadline'] = now + self._minimum_tp_bam_dt_interval\n                            # recalc next wakeup"))
M("tp22_cts_from_global_hijacks_bam", ["C07"], "D26 reverted: flow control frames from SA 255 match a broadcast session",
  ("j1939/j1939_22.py", "            if self._snd_buffer[buffer_hash]['dest_address'] == ParameterGroupNumber.Address.GLOBAL:\n                # a broadcast session has no flow control (only a frame \"from\" the global address matches it)\n                return\n", ""))
M("mpg_buffer_deleted_after_send", ["C11"], "D27 reverted: the multi-PG buffer is deleted after the frame was written",
  ("j1939/j1939_22.py", "                    del self._multi_pg_snd_buffer[bufid]\n                    due.append((bufid, buf))", "                    due.append((bufid, buf))"),
  ("j1939/j1939_22.py", "            self.__send_multi_pg(frame_format, buf['cpg'], src_address, dst_address)\n\n\n        # check send buffers",
   "            self.__send_multi_pg(frame_format, buf['cpg'], src_address, dst_address)\n            with self._multi_pg_lock:\n                self._multi_pg_snd_buffer.pop(bufid, None)\n\n\n        # check send buffers"))
M("dm1_receive_writes_into_send_dict", ["C16"], "D28 reverted: a received DM1 is parsed into the dict the send callback handed out",
  ("j1939/diagnostic_messages.py", "        self._lamp_status = {}\n        self._lamp_status['pl']", "        self._lamp_status['pl']"))
M("name_setter_keeps_reserved_bit", ["C15"], "D29 reverted: the value setter stores the reserved bit",
  ("j1939/name.py", "        self.reserved_bit = 0   # reads as 0, like after construction\n", "        self.reserved_bit = (value >> 48) & 1\n"))
M("request_dispatch_over_live_list", ["C14"], "D30 reverted: request callbacks dispatched over the live list",
  ("j1939/controller_application.py", "            for subscriber in list(self._subscribers_request):", "            for subscriber in self._subscribers_request:"))
M("tp21_data_kept_by_reference", ["C01"], "D31 reverted: the send session stores the caller's list object",
  ("j1939/j1939_21.py", '"data": list(data),   # a copy: the caller may reuse its list\n                        "state": self.SendBufferState.SENDING_BM,',
   '"data": data,\n                        "state": self.SendBufferState.SENDING_BM,'))
M("tp21_bam_released_before_last_packet", ["C01"], "D32 reverted: the broadcast session is deleted before the last packet is written",
  ("j1939/j1939_21.py", "                        self.__send_tp_dt(buf['src_address'], buf['dest_address'], data)\n\n                        buf['next_packet_to_send'] += 1\n",
   "                        buf['next_packet_to_send'] += 1\n"),
  ("j1939/j1939_21.py", "                            # done\n                            del self._snd_buffer[bufid]\n                    elif buf['state'] == self.SendBufferState.TRANSMISSION_FINISHED:",
   "                            # done\n                            del self._snd_buffer[bufid]\n                        self.__send_tp_dt(buf['src_address'], buf['dest_address'], data)\n                    elif buf['state'] == self.SendBufferState.TRANSMISSION_FINISHED:"))
M("tp21_hold_timeout_th", ["C03"], "D34 reverted (J1939-21): Th armed after a hold CTS",
  ("j1939/j1939_21.py", "time.time() + self.Timeout.T4", "time.time() + self.Timeout.Th"))
M("tp22_hold_timeout_th", ["C03"], "D34 reverted (J1939-22): Th armed after a hold CTS",
  ("j1939/j1939_22.py", "time.time() + self.Timeout.T4", "time.time() + self.Timeout.Th"))
M("tp22_dt_header_inserted_in_place", ["C03"], "D35 reverted: FD data frame header inserted into the stored segment",
  ("j1939/j1939_22.py", "        data = [(Dtfi & 0xF) | ((session_num & 0xF) << 4), segment_num & 0xFF, (segment_num >> 8) & 0xFF, (segment_num >> 16) & 0xFF] + list(data)\n",
   "        data.insert(0, (Dtfi & 0xF) | ((session_num & 0xF) << 4))\n        data.insert(1,  segment_num & 0xFF)\n        data.insert(2, (segment_num >> 8) & 0xFF)\n        data.insert(3, (segment_num >> 16) & 0xFF)\n"))
M("tp21_cts_next_packet_ignored", ["C03"], "D36 reverted: the CTS next-packet number is not followed",
  ("j1939/j1939_21.py", "                self._snd_buffer[buffer_hash]['next_packet_to_send'] = next_package_number\n", "                pass\n"))
M("tp21_bam_announced_before_registered", ["C01"], "D33 reverted: BAM written before the session is registered",
  ("j1939/j1939_21.py", "                # init new buffer for this connection\n                # (registered before the BAM is written: a concurrent send_pgn of this source must see it)\n",
   "                self.__send_tp_bam(src_address, priority, pgn.value, message_size, num_packets)\n"),
  ("j1939/j1939_21.py", "                # send BAM\n                self.__send_tp_bam(src_address, priority, pgn.value, message_size, num_packets)\n                # the interval", "                # the interval"))
M("dm14_busy_answer_stale_error", ["C19"], "D37 reverted: busy answer repeats the stored error",
  ("j1939/Dm14Server.py", "self.error if (self._busy and self.error != 0x00) else 0x2,", "self.error if self.error != 0x00 else 0x2,"))
M("aac_no_range_check", ["C13"], "D38 reverted: an arbitrary-address-capable CA walks past 253",
  ("j1939/controller_application.py", "if (self._name.arbitrary_address_capable == False) or (self._device_address_announced >= 253):", "if self._name.arbitrary_address_capable == False:"))
M("dm1_cycle_ignores_ca_state", ["C13"], "D39 reverted: the DM1 cycle calls send_pgn whatever the CA's state",
  ("j1939/diagnostic_messages.py", "        if self._ca.state != j1939.ControllerApplication.State.NORMAL:\n            # no address (yet, or any more)", "        if False:\n            # no address (yet, or any more)"),
  ("j1939/diagnostic_messages.py", "            # the address was lost while the data callback was running\n            return True\n", "            pass\n"))
M("dm14_client_state_after_send", ["C17"], "D40 reverted (read): WAIT_FOR_SEED set after the request is written",
  ("j1939/Dm14Query.py", "        self.command = Command.READ\n        self._ca.subscribe(self._parse_dm15)\n        # state first: the answer may be processed before the send call returns\n        self.state = QueryState.WAIT_FOR_SEED\n        self._send_dm14(self.user_level)\n",
   "        self.command = Command.READ\n        self._ca.subscribe(self._parse_dm15)\n        self._send_dm14(self.user_level)\n        self.state = QueryState.WAIT_FOR_SEED\n"))
M("tp21_abort_matched_without_pgn", ["C10"], "D42 reverted (J1939-21): abort matched by address pair only",
  ("j1939/j1939_21.py", "self._snd_buffer[buffer_hash]['pgn'] == pgn and ", ""))
M("tp22_abort_matched_without_pgn", ["C10"], "D42 reverted (J1939-22): abort matched by address pair and session number only",
  ("j1939/j1939_22.py", "self._snd_buffer[buffer_hash]['pgn'] == pgn and ", ""))
M("tp21_rts_interval_from_before_write", ["C09"], "D51 reverted (J1939-21): packet interval stamped before the write only",
  ("j1939/j1939_21.py", "                                buf['last_dt_time'] = time.time()\n                                if buf['state'] == self.SendBufferState.SENDING_IN_CTS:\n                                    buf['deadline'] = max(buf['deadline'], buf['last_dt_time'] + self._minimum_tp_rts_cts_dt_interval)\n", "                                pass\n"))
M("tp22_rts_interval_from_before_write", ["C09"], "D51 reverted (J1939-22): segment interval stamped before the write only",
  ("j1939/j1939_22.py", "                                buf['last_dt_time'] = time.time()\n                                if buf['state'] == self.SendBufferState.SENDING_RTS_CTS:\n                                    buf['deadline'] = max(buf['deadline'], buf['last_dt_time'] + self._minimum_tp_rts_cts_dt_interval)\n", "                                pass\n"))
M("unsubscribe_request_first_only", ["C12"], "D52 reverted: unsubscribe_request removes the first registration only",
  ("j1939/controller_application.py", "        self._subscribers_request[:] = [cb for cb in self._subscribers_request if cb != callback]\n",
   "        if callback in self._subscribers_request:\n            self._subscribers_request.remove(callback)\n"))
M("request_dispatch_ignores_unsubscribe", ["C12"], "D53 reverted: the request dispatch calls callbacks unsubscribed meanwhile",
  ("j1939/controller_application.py", "                if subscriber not in self._subscribers_request:\n", "                if False:\n"))
M("request_over_live_ca_list", ["C14"], "D54 reverted (J1939-21): requests dispatched over the live CA list",
  ("j1939/j1939_21.py", "            for ca in list(self._cas):\n                if ca.message_acceptable(dest_address):\n                    ca._process_request(",
   "            for ca in self._cas:\n                if ca.message_acceptable(dest_address):\n                    ca._process_request("))
M("dm1_no_state_check_after_data_callback", ["C13"], "D55 reverted: the CA state is not looked at again after the data callback",
  ("j1939/diagnostic_messages.py", "            # the address was lost while the data callback was running\n            return True\n", "            pass\n"))
M("tp21_flow_control_to_global_handled", ["C05"], "D56 reverted (J1939-21): RTS/CTS/ACK/abort to address 255 are handled",
  ("j1939/j1939_21.py", "        if (dest_address == ParameterGroupNumber.Address.GLOBAL) and (control_byte != self.ConnectionMode.BAM):", "        if False:"))
M("tp22_flow_control_to_global_handled", ["C05"], "D56 reverted (J1939-22): RTS/CTS/ACK/abort to address 255 are handled",
  ("j1939/j1939_22.py", "        if (dest_address == ParameterGroupNumber.Address.GLOBAL) and (control_byte not in (self.TpControlType.BAM, self.TpControlType.EOM_STATUS)):", "        if False:"))
M("dm14_client_deaf_for_dm15_while_waiting_for_data", ["C18"], "D57 reverted: the DM15 handler is unsubscribed while a read waits for its DM16",
  ("j1939/Dm14Query.py", "            # (the DM15 handler stays subscribed: the device may answer 'operation failed' instead of the data)\n",
   "            self._ca.unsubscribe(self._parse_dm15)\n"),
  ("j1939/Dm14Query.py", "        self._ca.unsubscribe(self._parse_dm16)\n        self.state = QueryState.WAIT_FOR_OPER_COMPLETE\n",
   "        self._ca.unsubscribe(self._parse_dm16)\n        self._ca.subscribe(self._parse_dm15)\n        self.state = QueryState.WAIT_FOR_OPER_COMPLETE\n"))
M("dm14_client_queues_result_after_timeout", ["C18"], "D58 reverted: the client queues its result whatever the state after the closing DM14 write",
  ("j1939/Dm14Query.py", "                    if self.state is QueryState.WAIT_FOR_OPER_COMPLETE:\n", "                    if True:\n"))
M("tp21_dt_taken_out_of_sequence", ["C06"], "D59 reverted (part): data packets are appended whatever their sequence number",
  ("j1939/j1939_21.py", "        if sequence_number != (len(self._rcv_buffer[buffer_hash]['data']) // 7) + 1:", "        if False:"))
M("tp21_repeated_rts_refused_busy", ["C06"], "D59 reverted (part): a repeated RTS for the same PGN is refused, the old session kept",
  ("j1939/j1939_21.py", "                if self._rcv_buffer[buffer_hash]['pgn'] == pgn:", "                if False:"))
M("tp21_rcv_timeout_pops_by_key", ["C08"], "D60 reverted (J1939-21): the timed-out receive session is removed by key",
  ("j1939/j1939_21.py", "                        if self._rcv_buffer.get(bufid) is buf:\n", "                        if True:\n"))
M("tp22_rcv_timeout_pops_by_key", ["C08"], "D60 reverted (J1939-22): the timed-out receive session is removed by key",
  ("j1939/j1939_22.py", "                        if self._rcv_buffer.get(bufid) is buf:\n", "                        if True:\n"))
M("dm14_own_query_busy_answer_stale_reason", ["C19"], "D61 reverted: the busy answer during an own query carries the last respond() reason",
  ("j1939/memory_access.py", "                    self.server.error = 0x0\n                    self.server.set_busy(True)\n                    self.server.parse_dm14(priority, pgn, sa, timestamp, data)", "                    self.server.set_busy(True)\n                    self.server.parse_dm14(priority, pgn, sa, timestamp, data)"))
M("dm1_notify_rereads_attributes", ["C16"], "D49 reverted: _notify_subscribers re-reads the attributes for every subscriber",
  ("j1939/diagnostic_messages.py", "            callback(sa, lamp_status.copy(), [dict(dtc_dic) for dtc_dic in dtc_dic_list], timestamp)",
   "            callback(sa, self._lamp_status.copy(), [dict(dtc_dic) for dtc_dic in self._dtc_dic_list], timestamp)"))
M("dm1_subscribers_share_code_dicts", ["C16"], "D50 reverted: the code dicts are shared between the subscribers",
  ("j1939/diagnostic_messages.py", "[dict(dtc_dic) for dtc_dic in dtc_dic_list], timestamp)", "dtc_dic_list.copy(), timestamp)"))
M("dm1_stop_during_callback_ignored", ["C16"], "D43 reverted: _send does not look at the cycle's active flag",
  ("j1939/diagnostic_messages.py", "        if not cookie.get('active', True):", "        if False:"))
M("tp21_abort_no_wakeup", ["C10"], "D45 reverted (J1939-21): no job-thread wake-up after a peer abort",
  ("j1939/j1939_21.py", "                # the job thread releases the session: it must not sleep on until the old deadline\n                self.__job_thread_wakeup()\n", ""))
M("tp22_abort_no_wakeup", ["C10"], "D45 reverted (J1939-22): no job-thread wake-up after a peer abort",
  ("j1939/j1939_22.py", "                # the job thread releases the session: it must not sleep on until the old deadline\n                self.__job_thread_wakeup()\n", ""))
M("tp21_grant_ignores_rts_limit", ["C09", "C03"], "responder grant ignores the RTS limit",
  ("j1939/j1939_21.py", "            max_num_packages = min(max_num_packages, num_packages)\n", "            max_num_packages = num_packages\n"))
M("tp21_hold_ignored", ["C09"], "zero-packet CTS treated as 'continue'",
  ("j1939/j1939_21.py",
   "                self._snd_buffer[buffer_hash]['deadline'] = time.time() + self.Timeout.T4\n                self.__job_thread_wakeup()\n                return\n",
   "                self._snd_buffer[buffer_hash]['deadline'] = time.time() + self.Timeout.T4\n                self.__job_thread_wakeup()\n                num_packages = 1\n"))
M("tp22_burst_ignores_window", ["C09"], "FD burst loop does not stop at the window end",
  ("j1939/j1939_22.py", "                            elif package == buf['next_wait_on_cts']:\n                                # wait on next cts\n                                buf['state'] = self.SendBufferState.WAITING_CTS\n                                buf['deadline'] = time.time() + self.Timeout.T3\n                                should_break = True",
   "                            elif package == buf['next_wait_on_cts'] + 1:\n                                # wait on next cts\n                                buf['state'] = self.SendBufferState.WAITING_CTS\n                                buf['deadline'] = time.time() + self.Timeout.T3\n                                should_break = True"))
M("tp22_grant_own_max_ignored", ["C09"], "FD responder grant ignores its own maximum",
  ("j1939/j1939_22.py", "                    'num_segments_max_rec': min(self._max_cmdt_packets, num_segments),", "                    'num_segments_max_rec': num_segments,"))
M("tp21_rts_interval_first_only", ["C09"], "RTS/CTS minimum interval not applied after a CTS (D21 reverted)",
  ("j1939/j1939_21.py", "                deadline = max(deadline, self._snd_buffer[buffer_hash].get('last_dt_time', 0) + self._minimum_tp_rts_cts_dt_interval)", "                pass"))
M("tp22_bam_slow", ["C09"], "FD BAM packets 250 ms apart",
  ("j1939/j1939_22.py", "                            buf['deadline'] = time.time() + self._minimum_tp_bam_dt_interval\n                            # recalc next wakeup\n                            if next_wakeup > buf['deadline']:\n                                next_wakeup = buf['deadline']\n                        else:\n                            buf['state'] = self.SendBufferState.SENDING_EOM_STATUS",
   "                            buf['deadline'] = time.time() + self._minimum_tp_bam_dt_interval + 0.24\n                            # recalc next wakeup\n                            if next_wakeup > buf['deadline']:\n                                next_wakeup = buf['deadline']\n                        else:\n                            buf['state'] = self.SendBufferState.SENDING_EOM_STATUS"))

M("tp22_abort_leaks_session", ["C10"], "FD: session number not returned after peer abort (D23 reverted)",
  ("j1939/j1939_22.py", "                        del self._snd_buffer[bufid]\n                        self.__put_rts_cts_session(buf['session'])\n                    else:", "                        del self._snd_buffer[bufid]\n                    else:"))
M("tp22_rcv_timeout_releases_own", ["C10", "C07"], "FD: receive time-out releases an originator session number (D1 reverted)",
  ("j1939/j1939_22.py", "                        self.__send_tp_abort(buf['dest_address'], buf['src_address'], buf['session'], self.ConnectionAbortReason.TIMEOUT, buf['pgn'])\n",
   "                        self.__send_tp_abort(buf['dest_address'], buf['src_address'], buf['session'], self.ConnectionAbortReason.TIMEOUT, buf['pgn'])\n                        self._J1939_22__put_rts_cts_session(buf['session'] & 7)\n"))
M("tp22_eoma_timeout_leaks_session", ["C10"], "FD: session not returned on EOMA time-out",
  ("j1939/j1939_22.py", "                        # TODO: should we inform the application about the eom ack timeout?\n                        del self._snd_buffer[bufid]\n                        self.__put_rts_cts_session(buf['session'])",
   "                        # TODO: should we inform the application about the eom ack timeout?\n                        del self._snd_buffer[bufid]"))
M("tp21_abort_ignored", ["C10"], "J1939-21: peer abort ignored and CTS time-out keeps the buffer",
  ("j1939/j1939_21.py", "                        self.__send_tp_abort(buf['src_address'], buf['dest_address'], self.ConnectionAbortReason.TIMEOUT, buf['pgn'])\n                        # TODO: should we notify our CAs about the cancelled transfer?\n                        del self._snd_buffer[bufid]",
   "                        self.__send_tp_abort(buf['src_address'], buf['dest_address'], self.ConnectionAbortReason.TIMEOUT, buf['pgn'])\n                        # TODO: should we notify our CAs about the cancelled transfer?\n                        buf['deadline'] = time.time() + 30"))
M("tp22_refused_send_emits", ["C10", "C02"], "FD: BAM announced before the capacity check",
  ("j1939/j1939_22.py", "                session_num = self.__get_bam_session()\n                if session_num == None:\n                    #print('bam session not available')\n                    return False",
   "                session_num = self.__get_bam_session()\n                if session_num == None:\n                    self._J1939_22__send_tp_bam(priority, src_address, 0, pgn.value, data_length, 1)\n                    return False"))
M("tp22_capacity_7", ["C10", "C02"], "FD: only 7 RTS/CTS sessions",
  ("j1939/j1939_22.py", "        self.__rts_cts_session_list = [True] * 8", "        self.__rts_cts_session_list = [True] * 7"))

M("tp21_late_cts_spins", ["C07"], "J1939-21: no fallback when a CTS leaves nothing to send (D13 reverted)",
  ("j1939/j1939_21.py", "                        if (buf['state'] == self.SendBufferState.SENDING_IN_CTS) and (buf['next_packet_to_send'] >= buf['num_packages']):", "                        if False:"))
M("tp22_late_cts_spins", ["C07"], "J1939-22: no fallback when a CTS leaves nothing to send",
  ("j1939/j1939_22.py", "                        if (buf['state'] == self.SendBufferState.SENDING_RTS_CTS) and (buf['next_packet_to_send'] >= buf['num_segments']):", "                        if False:"))
M("tp22_bam_reannounce_keyerror", ["C07"], "FD: re-announced BAM raises KeyError and is dropped (D3 reverted)",
  ("j1939/j1939_22.py", "                del self._rcv_buffer[buffer_hash]\n\n            # init new buffer for this connection\n            new_session = {\n                    'pgn': pgn,\n                    'session': session_num,\n                    'message_size': message_size, # Total message size, number of bytes",
   "                del self._rcv_buffer[buffer_hash]\n                return\n\n            # init new buffer for this connection\n            new_session = {\n                    'pgn': pgn,\n                    'session': session_num,\n                    'message_size': message_size, # Total message size, number of bytes"))
M("tp22_rcv_timeout_indexerror", ["C07", "C10"], "FD: receive time-out indexes the session pool with the remote session number (D2 reverted)",
  ("j1939/j1939_22.py", "                        self.__send_tp_abort(buf['dest_address'], buf['src_address'], buf['session'], self.ConnectionAbortReason.TIMEOUT, buf['pgn'])\n",
   "                        self.__send_tp_abort(buf['dest_address'], buf['src_address'], buf['session'], self.ConnectionAbortReason.TIMEOUT, buf['pgn'])\n                        self._J1939_22__put_rts_cts_session(buf['session'])\n"))
M("tp21_rcv_never_times_out", ["C07", "C06"], "J1939-21: RTS opens a receive session without deadline",
  ("j1939/j1939_21.py", "                    'deadline': time.time() + self.Timeout.T2,\n                    'src_address' : src_address,\n                    'dest_address' : dest_address,\n                }\n            with self._rcv_lock:\n                self._rcv_buffer[buffer_hash] = new_session\n\n            self.__send_tp_cts(dest_address, src_address, self._rcv_buffer[buffer_hash]['num_packages_max_rec'], 1, pgn)",
   "                    'deadline': 0,\n                    'src_address' : src_address,\n                    'dest_address' : dest_address,\n                }\n            with self._rcv_lock:\n                self._rcv_buffer[buffer_hash] = new_session\n\n            self.__send_tp_cts(dest_address, src_address, self._rcv_buffer[buffer_hash]['num_packages_max_rec'], 1, pgn)"))
M("listener_no_containment", ["C07"], "bus listener lets exceptions from frame handling escape",
  ("j1939/electronic_control_unit.py", "        except Exception as e:\n            # Exceptions in any callbaks should not affect CAN processing\n            logger.error(str(e))",
   "        except ZeroDivisionError as e:\n            # Exceptions in any callbaks should not affect CAN processing\n            logger.error(str(e))"))
M("tp21_hold_rearms_forever", ["C07"], "hold CTS disables the send deadline",
  ("j1939/j1939_21.py", "                self._snd_buffer[buffer_hash]['deadline'] = time.time() + self.Timeout.T4\n", "                self._snd_buffer[buffer_hash]['deadline'] = 0\n"))

M("tp22_segments_off_by_one_mod60", ["C02", "C03"], "FD segment count one too many when len % 60 == 0",
  ("j1939/j1939_22.py", "num_segments = int(message_size / self.DataLength.TP ) + ((message_size % self.DataLength.TP ) != 0)", "num_segments = int(message_size / self.DataLength.TP ) + 1"))
M("tp22_rcv_key_without_session", ["C02"], "FD receive/send buffers keyed without the session number",
  ("j1939/j1939_22.py", "        return ((session_num & 0xF) << 16) | ((src_address & 0xFF) << 8) | (dest_address & 0xFF)", "        return ((src_address & 0xFF) << 8) | (dest_address & 0xFF)"))
M("tp22_eoms_releases_own_session", ["C02", "C10"], "FD: EOM status handler releases an originator session number (D1 partially reverted)",
  ("j1939/j1939_22.py", "            del self._rcv_buffer[buffer_hash]\n\n        elif control_byte == self.TpControlType.EOM_ACK:", "            del self._rcv_buffer[buffer_hash]\n            self._J1939_22__put_rts_cts_session(session_num & 7)\n\n        elif control_byte == self.TpControlType.EOM_ACK:"))
M("tp22_dt_truncate_59", ["C02", "C03"], "FD data segment carries 59 bytes only when message is long",
  ("j1939/j1939_22.py", "        self._rcv_buffer[buffer_hash]['data'].extend(data[4:])\n", "        self._rcv_buffer[buffer_hash]['data'].extend(data[4:] if segment_num != 300 else data[4:63])\n"))

M("mpg_fit_test_off", ["C11"], "multi-PG fit test ignores the 4-byte header",
  ("j1939/j1939_22.py", "elif (self._multi_pg_snd_buffer[hash]['fill_level'] <= (self.DataLength.TP - data_length)):", "elif (self._multi_pg_snd_buffer[hash]['fill_level'] <= (64 - data_length)):"))
M("mpg_no_wakeup", ["C11"], "no job thread wake-up for a new multi-PG deadline (D14 reverted)",
  ("j1939/j1939_22.py", "                # the job thread has to recalculate its wakeup for the new deadline\n                self.__job_thread_wakeup()\n", ""))
M("mpg_hash_without_dest", ["C11"], "multi-PG buffers for different destinations share a hash",
  ("j1939/j1939_22.py", "        return ((frame_format & 0xFF) << 24) | ((msg_counter & 0xFF) << 16) | ((src_address & 0xFF) << 8) | (dest_address & 0xFF)", "        return ((frame_format & 0xFF) << 24) | ((msg_counter & 0xFF) << 16) | ((src_address & 0xFF) << 8) | 0xFF"))
M("mpg_hash_without_format", ["C11"], "multi-PG buffers for FEFF and FBFF share a hash",
  ("j1939/j1939_22.py", "        return ((frame_format & 0xFF) << 24) | ((msg_counter & 0xFF) << 16) | ((src_address & 0xFF) << 8) | (dest_address & 0xFF)", "        return (3 << 24) | ((msg_counter & 0xFF) << 16) | ((src_address & 0xFF) << 8) | (dest_address & 0xFF)"))
M("mpg_padding_aa_first", ["C11"], "padding starts with 0xAA (TOS 5) instead of a zero service header",
  ("j1939/j1939_22.py", "            if padding_cnt < 3:\n                data.append(0)", "            if padding_cnt < 0:\n                data.append(0)"))
M("mpg_deadline_not_lowered", ["C11"], "a later group with a shorter limit does not pull the deadline forward",
  ("j1939/j1939_22.py", "                        if self._multi_pg_snd_buffer[hash]['deadline'] > deadline:", "                        if False:"))
M("mpg_cpgn_dp_lost", ["C11"], "contained PGN loses the data page bit in the header",
  ("j1939/j1939_22.py", "data.append( (cpg['tos'] << 5) | (cpg['tf'] << 2) | ((cpg['cpgn'] >> 16) & 0x3) )", "data.append( (cpg['tos'] << 5) | (cpg['tf'] << 2) )"))
M("mpg_unpack_stops_early", ["C11"], "unpacking loop stops when 8 or fewer bytes remain",
  ("j1939/j1939_22.py", "        while True:\n            if len(data) <= 4:\n                break", "        while True:\n            if len(data) <= 8:\n                break"))

M("claim_normal_contention_ignored", ["C04"], "contention in NORMAL state ignored",
  ("j1939/controller_application.py", "            or (self._device_address_state == ControllerApplication.State.NORMAL and src_address == self._device_address)\n", "            or (False and src_address == self._device_address)\n"))
M("claim_name_low32", ["C04"], "NAME compared on the low 32 bits",
  ("j1939/controller_application.py", "            if self._name.value > contenders_name.value:", "            if (self._name.value & 0xFFFFFFFF) > (contenders_name.value & 0xFFFFFFFF):"))
M("claim_state_after_send", ["C04"], "state set after the claim is sent (D11 reverted)",
  ("j1939/controller_application.py", "                    self._device_address_state = ControllerApplication.State.WAIT_VETO\n                    self._send_address_claimed(self._device_address_announced)\n",
   "                    self._send_address_claimed(self._device_address_announced)\n                    self._device_address_state = ControllerApplication.State.WAIT_VETO\n"))
M("claim_no_cannot_claim_frame", ["C04"], "loser does not announce cannot-claim",
  ("j1939/controller_application.py", "                    self._send_address_claimed(j1939.ParameterGroupNumber.Address.NULL) # send CANNOT CLAIM", "                    pass"))
M("claim_equal_name_yields", ["C04"], "higher-priority CA does not repeat its claim while waiting for veto",
  ("j1939/controller_application.py", "                    # we are in the middle of the claim-process\n                    self._send_address_claimed(self._device_address_announced)", "                    # we are in the middle of the claim-process\n                    pass"))
M("claim_aac_from_wrong_bit", ["C04", "C15"], "arbitrary-address-capable parsed from bit 62",
  ("j1939/name.py", "        self.arbitrary_address_capable = (value >> 63) & 1", "        self.arbitrary_address_capable = (value >> 62) & 1"))

M("guard_send_message_removed", ["C13"], "send_message without the state guard",
  ("j1939/controller_application.py", "    def send_message(self, priority, parameter_group_number, data):\n        if self.state != ControllerApplication.State.NORMAL:", "    def send_message(self, priority, parameter_group_number, data):\n        if False:"))
M("guard_send_request_any_pgn", ["C13"], "send_request lets any PGN through without an address",
  ("j1939/controller_application.py", "            if pgn != j1939.ParameterGroupNumber.PGN.ADDRESSCLAIM:\n                raise RuntimeError", "            if False:\n                raise RuntimeError"))
M("guard_send_pgn_wait_veto_ok", ["C13"], "send_pgn allowed while waiting for veto",
  ("j1939/controller_application.py", "        if self.state != ControllerApplication.State.NORMAL:\n            raise RuntimeError(\"Could not send message unless address claiming has finished\")\n\n        return self._ecu.send_pgn(", "        if self.state not in (ControllerApplication.State.NORMAL, ControllerApplication.State.WAIT_VETO):\n            raise RuntimeError(\"Could not send message unless address claiming has finished\")\n\n        return self._ecu.send_pgn("))
M("loss_keeps_old_address_aac", ["C13", "C04"], "AAC loser goes NORMAL again on the address it lost",
  ("j1939/controller_application.py", "            self._device_address = self._device_address_announced\n            self._device_address_state = ControllerApplication.State.NORMAL\n        elif self._device_address_state == ControllerApplication.State.NORMAL:", "            self._device_address = self._device_address_preferred\n            self._device_address_state = ControllerApplication.State.NORMAL\n        elif self._device_address_state == ControllerApplication.State.NORMAL:"))
M("request_claim_from_own_address_when_lost", ["C13"], "request for address claim sent from the preferred address when not operational",
  ("j1939/controller_application.py", "            source_address = j1939.ParameterGroupNumber.Address.NULL\n        else:", "            source_address = self._device_address_preferred\n        else:"))
M("cannot_claim_state_not_set", ["C13", "C04"], "fixed loser keeps state NORMAL (address None)",
  ("j1939/controller_application.py", "                    self._device_address_state = ControllerApplication.State.CANNOT_CLAIM\n                    self._device_address = None", "                    self._device_address = None"))

M("request_dispatch_any_state", ["C14"], "request dispatched regardless of the CA's claim state",
  ("j1939/controller_application.py", "        if (self.state != ControllerApplication.State.NORMAL) or ((self._device_address != dest_address) and (dest_address != j1939.ParameterGroupNumber.Address.GLOBAL)):", "        if ((self._device_address != dest_address) and (dest_address != j1939.ParameterGroupNumber.Address.GLOBAL)):"),
  ("j1939/j1939_21.py", "            for ca in list(self._cas):\n                if ca.message_acceptable(dest_address):\n                    ca._process_request(mid, dest_address, data, timestamp)", "            for ca in list(self._cas):\n                ca._process_request(mid, dest_address, data, timestamp)"))
M("request_pgn_16bit", ["C14"], "requested PGN parsed from two bytes only",
  ("j1939/controller_application.py", "        pgn = data[0] | (data[1] << 8) | (data[2] << 16)\n        src_address = mid.source_address\n\n        if (self.state", "        pgn = data[0] | (data[1] << 8)\n        src_address = mid.source_address\n\n        if (self.state"))
M("request_to_all_cas_of_stack", ["C14", "C05"], "a destination-specific request reaches every CA of the owning stack",
  ("j1939/controller_application.py", "or ((self._device_address != dest_address) and (dest_address != j1939.ParameterGroupNumber.Address.GLOBAL)):", "or False:"),
  ("j1939/j1939_21.py", "            for ca in list(self._cas):\n                if ca.message_acceptable(dest_address):\n                    ca._process_request(mid, dest_address, data, timestamp)", "            for ca in list(self._cas):\n                ca._process_request(mid, dest_address, data, timestamp)"))
M("request_claim_dp1_answered", ["C14"], "PGN 0x1EE00 treated as the address-claim PGN",
  ("j1939/controller_application.py", "        if pgn==j1939.ParameterGroupNumber.PGN.ADDRESSCLAIM:\n            # answer the request with our name...", "        if (pgn & 0xFFFF)==j1939.ParameterGroupNumber.PGN.ADDRESSCLAIM:\n            # answer the request with our name..."))
M("request_encoding_be", ["C14"], "request data big-endian",
  ("j1939/controller_application.py", "        data = [(pgn & 0xFF), ((pgn >> 8) & 0xFF), ((pgn >> 16) & 0xFF)]\n        self._ecu.send_pgn(data_page, (j1939.ParameterGroupNumber.PGN.REQUEST", "        data = [((pgn >> 16) & 0xFF), ((pgn >> 8) & 0xFF), (pgn & 0xFF)]\n        self._ecu.send_pgn(data_page, (j1939.ParameterGroupNumber.PGN.REQUEST"))
M("request_global_only_first_ca", ["C14"], "global request handled by the first CA only",
  ("j1939/j1939_21.py", "                if ca.message_acceptable(dest_address):\n                    ca._process_request(mid, dest_address, data, timestamp)", "                if ca.message_acceptable(dest_address):\n                    ca._process_request(mid, dest_address, data, timestamp)\n                    break"))

M("filter21_removed", ["C05"], "J1939-21 destination filter removed",
  ("j1939/j1939_21.py", "                if reject == True:\n                    return\n\n        if pgn_value == ParameterGroupNumber.PGN.ADDRESSCLAIM:", "                if reject == True:\n                    pass\n\n        if pgn_value == ParameterGroupNumber.PGN.ADDRESSCLAIM:"))
M("filter22_tp_only_after", ["C05"], "J1939-22 destination filter skipped for FD.TP.CM",
  ("j1939/j1939_22.py", "        if dest_address != ParameterGroupNumber.Address.GLOBAL:\n            if not self.__ecu_is_message_acceptable(dest_address):", "        if dest_address != ParameterGroupNumber.Address.GLOBAL and pgn_value != ParameterGroupNumber.PGN.FD_TP_CM:\n            if not self.__ecu_is_message_acceptable(dest_address):"))
M("listener_remote_frames_processed", ["C05"], "remote frames are processed",
  ("j1939/electronic_control_unit.py", "if self.stopped or msg.is_error_frame or msg.is_remote_frame or (msg.is_extended_id == False):", "if self.stopped or msg.is_error_frame or (msg.is_extended_id == False):"))
M("listener_11bit_processed", ["C05"], "11-bit frames are processed",
  ("j1939/electronic_control_unit.py", "if self.stopped or msg.is_error_frame or msg.is_remote_frame or (msg.is_extended_id == False):", "if self.stopped or msg.is_error_frame or msg.is_remote_frame:"))
M("notify_unfiltered_gets_all_ca_msgs", ["C05"], "a CA subscriber receives destination-specific messages of other CAs of its stack",
  ("j1939/electronic_control_unit.py", "(callable(dic['dev_adr']) and dic['dev_adr'](dest))", "(callable(dic['dev_adr']))"))
M("ca_acceptable_any_state", ["C05", "C14"], "a CA accepts its preferred address in any claim state",
  ("j1939/controller_application.py", "        if self.state != j1939.ControllerApplication.State.NORMAL:\n            return False\n        if dest_address == j1939.ParameterGroupNumber.Address.GLOBAL:", "        if self.state != j1939.ControllerApplication.State.NORMAL:\n            return (self._device_address_preferred == dest_address)\n        if dest_address == j1939.ParameterGroupNumber.Address.GLOBAL:"))
M("int_listener_needs_ca", ["C05"], "an integer ECU listener does not make the stack accept its address",
  ("j1939/electronic_control_unit.py", "            if dic['dev_adr'] == dest:\n                return True\n        return False", "            if dic['dev_adr'] == dest:\n                return False\n        return False"))
M("tp21_cts_abort_for_foreign", ["C05"], "J1939-21: TP.CM handled before the destination filter",
  ("j1939/j1939_21.py", "        # iterate all CAs to check if we have to handle this destination address\n        if dest_address != ParameterGroupNumber.Address.GLOBAL:", "        if pgn_value == ParameterGroupNumber.PGN.TP_CM and data[0] == 17:\n            self._process_tp_cm(mid, dest_address, data, timestamp)\n            return\n        # iterate all CAs to check if we have to handle this destination address\n        if dest_address != ParameterGroupNumber.Address.GLOBAL:"))

M("dtc_fmi_mask_4bit", ["C16"], "FMI packed with a 4-bit mask",
  ("j1939/diagnostic_messages.py", "((fmi & 0x1F) << 16)", "((fmi & 0x0F) << 16)"))
M("dtc_spn_high_shift", ["C16"], "SPN high bits unpacked with the wrong shift",
  ("j1939/diagnostic_messages.py", "self._spn = ((dtc & 0xFFFF) | ((dtc >> 5) & 0x70000))", "self._spn = ((dtc & 0xFFFF) | ((dtc >> 4) & 0x70000))"))
M("lamp_lut_rows_swapped", ["C16"], "slow and fast flash swapped in the lamp LUT",
  ("j1939/diagnostic_messages.py", "ON_SLOW_FLASH: [1,0], ON_FAST_FLASH: [1,1]", "ON_SLOW_FLASH: [1,1], ON_FAST_FLASH: [1,0]"))
M("lamp_order_swapped", ["C16"], "lamp key order pl/awl swapped",
  ("j1939/diagnostic_messages.py", "_KEYS = ['pl', 'awl', 'rsl', 'mil']", "_KEYS = ['awl', 'pl', 'rsl', 'mil']"))
M("dm1_oc_default_one", ["C16"], "missing occurrence count defaults to 1",
  ("j1939/diagnostic_messages.py", "                dtc_dic['oc'] = 0", "                dtc_dic['oc'] = 1"))
M("dm1_parse_drops_last_dtc_when_len8", ["C16"], "receiver mis-parses 8-byte DM1",
  ("j1939/diagnostic_messages.py", "        number_dtc = int(dtc_length / 4)", "        number_dtc = int(dtc_length / 4) if length != 18 else 3"))
M("dm1_stop_send_noop", ["C16"], "stop_send removes the user callback again (D7 reverted)",
  ("j1939/diagnostic_messages.py", "        self._ca.remove_timer(self._send)", "        self._ca.remove_timer(callback)"))
M("dm22_spn_shift", ["C16"], "DM22 SPN high bits shifted by 22 (D8 reverted)",
  ("j1939/diagnostic_messages.py", "((spn >> 11) & 0xE0)", "((spn >> 22) & 0xE0)"))
M("dm1_priority_only", ["C16"], "harmless: DM1 priority 6 always", 
  ("j1939/diagnostic_messages.py", "            priority = 7\n        else:", "            priority = 6\n        else:"))

M("dm14_values_slice", ["C17"], "converted read decodes every object from the first bytes (D9 reverted)",
  ("j1939/Dm14Query.py", "raw_bytes[i * self.object_byte_size : (i + 1) * self.object_byte_size],", "raw_bytes[i : self.object_byte_size],"))
M("dm14_read_8_as_single", ["C17"], "8-byte read treated as single frame (D10a reverted)",
  ("j1939/Dm14Server.py", "            if (len(self.data)) <= 7:", "            if (len(self.data)) <= 8:"))
M("dm14_stale_ack_queued", ["C17"], "EndOfMsgACK of the server's DM16 queued as data (D10b reverted)",
  ("j1939/Dm14Server.py", "        if self.command != j1939.Command.READ.value:\n            # (for a read this is the end-of-message acknowledge of our own DM16, not data)\n            self.data_queue.put(data[1 : length + 1])", "        self.data_queue.put(data[1 : length + 1])"))
M("dm14_dm16_length_cap", ["C17"], "client caps DM16 data at 200 bytes",
  ("j1939/Dm14Query.py", "        length = min(data[0], len(data) - 1)\n        # assert object_count == self.object_count", "        length = min(data[0], len(data) - 1, 200)\n        # assert object_count == self.object_count"))
M("dm14_pointer_big_endian", ["C17"], "client encodes the pointer big-endian",
  ("j1939/Dm14Query.py", "pointer = self.address.to_bytes(length=4, byteorder=\"little\")", "pointer = self.address.to_bytes(length=4, byteorder=\"big\")"))
M("dm14_signed_ignored", ["C17"], "signed flag ignored on conversion",
  ("j1939/Dm14Query.py", "                    signed=self.signed,", "                    signed=False,"))
M("dm14_write_values_be", ["C17"], "written values encoded big-endian",
  ("j1939/Dm14Query.py", "bytes.extend(val.to_bytes(self.object_byte_size, byteorder=\"little\"))", "bytes.extend(val.to_bytes(self.object_byte_size, byteorder=\"big\"))"))
M("dm14_pointer_type_mask", ["C17"], "server reports pointer type from the wrong bit",
  ("j1939/Dm14Server.py", "                self.pointer_type = (data[1] >> 4) & 0x1", "                self.pointer_type = (data[1] >> 5) & 0x1"))
M("dm14_client_no_cleanup", ["C17", "C18"], "client leaves its DM15 handler subscribed (D25 reverted)",
  ("j1939/Dm14Query.py", "        self._ca.unsubscribe(self._parse_dm15)\n        self._ca.unsubscribe(self._parse_dm16)\n        self.state = QueryState.IDLE", "        self.state = QueryState.IDLE"))

M("dm14_verify_key_always_true", ["C18"], "verify_key accepts any key",
  ("j1939/Dm14Server.py", "        return True if self._key_from_seed(seed) == key else False", "        return True"))
M("dm14_key_low_byte_only", ["C18"], "only the low byte of the key is compared",
  ("j1939/Dm14Server.py", "        return True if self._key_from_seed(seed) == key else False", "        return True if (self._key_from_seed(seed) & 0xFF) == (key & 0xFF) else False"))
M("dm14_facade_stuck_after_error", ["C18"], "facade stays in WAIT_QUERY after a failed read (D17 reverted)",
  ("j1939/memory_access.py", "            finally:\n                # also after a timeout or an error response\n                self.state = DMState.IDLE\n            return data", "            finally:\n                pass\n            self.state = DMState.IDLE\n            return data"))
M("dm14_deaf_after_refusal", ["C18"], "listener not re-subscribed after a refusal (D15 reverted)",
  ("j1939/memory_access.py", "                                    # keep listening for the next request\n                                    self._ca.subscribe(self._listen_for_dm14)\n", ""))
M("dm14_no_reset_after_wrong_key", ["C18"], "server not reset after a wrong key (D16 reverted)",
  ("j1939/memory_access.py", "                                # forget the rejected request, otherwise no later one is accepted\n                                self.server.reset_query()\n", ""))
M("dm14_error_indicator_16bit", ["C18"], "error indicator encoded in 16 bits",
  ("j1939/Dm14Server.py", "                data[length - 4] = error >> 16", "                data[length - 4] = 0"))
M("dm14_timeout_ignored", ["C18"], "client waits 5 s regardless of max_timeout",
  ("j1939/Dm14Query.py", "                raw_bytes = self.data_queue.get(block=True, timeout=max_timeout)", "                raw_bytes = self.data_queue.get(block=True, timeout=5)"))
M("dm14_address_kept", ["C18"], "server keeps the pointer after completion (D24 reverted)",
  ("j1939/Dm14Server.py", "                self.sa = None\n                self.address = None  # the next request may address other memory\n                self._ca.unsubscribe(self.parse_dm14)", "                self.sa = None\n                self._ca.unsubscribe(self.parse_dm14)"))
M("dm14_error_text_dropped", ["C18"], "client exception lacks the ErrorInfo text",
  ("j1939/Dm14Query.py", "f\"Device {hex(sa)} error: {hex(error)} {j1939.ErrorInfo[error]} edcp: {hex(edcp)}\"", "f\"Device {hex(sa)} error: {hex(error)} edcp: {hex(edcp)}\""))
M("dm14_proceed_before_key", ["C18"], "proceed callback consulted before the key is verified",
  ("j1939/memory_access.py", "                            if self.server.verify_key(\n                                self.server.seed, self.server.key\n                            ):", "                            if (self._proceed_function is not None and self._proceed_function(self.server.command, 0, 0, 0, 0, 0, 0, 0, 0) or True) and self.server.verify_key(\n                                self.server.seed, self.server.key\n                            ):"))

M("dm14_requester_check_dropped", ["C19"], "server does not compare the requester's source address",
  ("j1939/Dm14Server.py", "            (self.sa is not None and sa != self.sa)\n            or (", "            (False)\n            or ("))
M("dm14_pointer_check_dropped", ["C19"], "server does not compare the pointer of a running transaction",
  ("j1939/Dm14Server.py", "                self.address is not None and self.address != data[2 : (self.length - 2)]", "                False"))
M("dm14_busy_answer_to_running_client", ["C19"], "busy DM15 addressed to the running requester instead of the sender",
  ("j1939/Dm14Server.py", "                data[0],\n                sa,\n                j1939.ParameterGroupNumber.PGN.DM15,\n                # a refusal set up", "                data[0],\n                self.sa if self.sa is not None else sa,\n                j1939.ParameterGroupNumber.PGN.DM15,\n                # a refusal set up"))
M("dm14_busy_answer_proceed_status", ["C19"], "busy answer carries status 'proceed'",
  ("j1939/Dm14Server.py", "                data[1] >> 4,\n                j1939.Dm15Status.OPERATION_FAILED.value,\n                j1939.ResponseState.SEND_ERROR,", "                data[1] >> 4,\n                j1939.Dm15Status.PROCEED.value,\n                j1939.ResponseState.SEND_PROCEED,"))
M("dm14_intruder_resets_server", ["C19"], "a busy answer resets the running transaction's requester",
  ("j1939/Dm14Server.py", "            self.set_busy(False)\n            return\n\n        self.length = len(data)", "            self.set_busy(False)\n            self.sa = None\n            return\n\n        self.length = len(data)"))
M("dm14_wait_complete_any_sender", ["C19"], "closing DM14 accepted from any sender",
  ("j1939/Dm14Server.py", "            (self.sa is not None and sa != self.sa)\n            or (", "            (self.sa is not None and sa != self.sa and self.state != ResponseState.WAIT_OPERATION_COMPLETE)\n            or ("))


# ----------------------------------------------------------------------------------------------
# Benign refactorings: the property still holds, so NO check may raise an alarm (expect = [] means "must survive all").
BENIGN = {}


def Bn(name, doc, *edits):
    BENIGN[name] = {"doc": doc, "edits": list(edits), "expect": []}
    MUTANTS[name] = BENIGN[name]


Bn("benign_monotonic_clock", "time.monotonic() instead of time.time() everywhere",
   ("j1939/electronic_control_unit.py", "import time\n", "import time as _time_mod\n\nclass _T:\n    time = staticmethod(lambda: _time_mod.monotonic())\n\ntime = _T\n"))
Bn("benign_from_time_import", "from time import time (function imported by name) in the J1939-21 layer",
   ("j1939/j1939_21.py", "import logging\nimport threading\nimport time\n", "import logging\nimport threading\nfrom time import time as _now\n\nclass time:\n    time = staticmethod(lambda: _now())\n"))
Bn("benign_simplequeue", "queue.SimpleQueue for the job-thread wake-up",
   ("j1939/electronic_control_unit.py", "self._job_thread_wakeup_queue = queue.Queue()", "self._job_thread_wakeup_queue = queue.SimpleQueue()"))
Bn("benign_thread_subclass", "job thread as a Thread subclass",
   ("j1939/electronic_control_unit.py", "        self._job_thread = threading.Thread(target=self._async_job_thread, name='j1939.ecu job_thread')",
    "        ecu = self\n\n        class _Job(threading.Thread):\n            def run(self):\n                ecu._async_job_thread()\n        self._job_thread = _Job(name='j1939.ecu job_thread')"))
Bn("benign_shorter_idle_sleep", "idle wake-up every 1 s instead of 5 s (both layers)",
   ("j1939/j1939_21.py", "        next_wakeup = now + 5.0 # wakeup in 5 seconds", "        next_wakeup = now + 1.0 # wakeup in 1 second"),
   ("j1939/j1939_22.py", "        next_wakeup = now + 5.0 # wakeup in 5 seconds", "        next_wakeup = now + 1.0 # wakeup in 1 second"))
Bn("benign_extra_wakeups", "redundant second job-thread wake-up after every received FD.TP.DT inside a window",
   ("j1939/j1939_22.py", "        # (the job thread may be sleeping towards the later T2 deadline set with the CTS)\n        self.__job_thread_wakeup()\n",
    "        # (the job thread may be sleeping towards the later T2 deadline set with the CTS)\n        self.__job_thread_wakeup()\n        self.__job_thread_wakeup()\n"))
M("tp22_no_wakeup_for_t1", ["C06"], "D46 reverted: no wake-up for the T1 deadline of a J1939-22 receive session",
  ("j1939/j1939_22.py", "        # (the job thread may be sleeping towards the later T2 deadline set with the CTS)\n        self.__job_thread_wakeup()\n", ""))
Bn("benign_eager_session_cleanup", "J1939-21: send session removed in the EndOfMsgACK handler's job pass without waiting (deadline already now) - reorder of two assignments",
   ("j1939/j1939_21.py", "            self._snd_buffer[buffer_hash]['state'] = self.SendBufferState.TRANSMISSION_FINISHED\n            self._snd_buffer[buffer_hash]['deadline'] = time.time()\n            self.__job_thread_wakeup()\n        elif control_byte == self.ConnectionMode.BAM:",
    "            self._snd_buffer[buffer_hash]['deadline'] = time.time()\n            self._snd_buffer[buffer_hash]['state'] = self.SendBufferState.TRANSMISSION_FINISHED\n            self.__job_thread_wakeup()\n        elif control_byte == self.ConnectionMode.BAM:"))

M("add_timer_raises_for_zero", ["C01", "C11"], "add_timer rejects a zero delay (an API call with valid arguments raises)",
  ("j1939/electronic_control_unit.py", "        d = {\n            'delta_time': delta_time,", "        if delta_time <= 0:\n            raise ValueError('delta_time must be positive')\n        d = {\n            'delta_time': delta_time,"))
