"""Mutants for the sensitivity protocol: realistic slips that still pass the pinned suite.
Each: edits = [(file, old, new)], expect = checks that should kill it."""
MUTANTS = {}


def M(name, expect, doc, *edits):
    MUTANTS[name] = {"expect": expect, "doc": doc, "edits": list(edits)}


M("tp21_send_before_state", ["C01", "C08"], "J1939-21: DT sent before the send state is advanced",
  ("j1939/j1939_21.py",
   """                            buf['next_packet_to_send'] += 1

                            should_break = False""",
   """                            self._J1939_21__send_tp_dt(buf['src_address'], buf['dest_address'], data)
                            buf['next_packet_to_send'] += 1

                            should_break = False"""),
  ("j1939/j1939_21.py",
   """                            # state is ready for recv - Now send the message
                            self.__send_tp_dt(buf['src_address'], buf['dest_address'], data)
                            if should_break:""",
   """                            # state is ready for recv - Now send the message
                            if should_break:"""))

M("tp21_packets_off_by_one_mod7", ["C01", "C03"], "packet count one too many when len % 7 == 0",
  ("j1939/j1939_21.py",
   "num_packets = int(message_size / 7) if (message_size % 7 == 0) else int(message_size / 7) + 1",
   "num_packets = int(message_size / 7) + 1"))

M("tp21_rcv_key_without_sa", ["C01"], "receive buffer keyed by destination only",
  ("j1939/j1939_21.py",
   "        return ((src_address & 0xFF) << 8) | (dest_address & 0xFF)",
   "        return (dest_address & 0xFF)"))

M("tp21_cts_no_remaining_clamp", ["C01", "C09", "C03"], "CTS grant without the 'remaining' clamp",
  ("j1939/j1939_21.py",
   "number_of_packets_that_can_be_sent = min( self._rcv_buffer[buffer_hash]['num_packages_max_rec'], self._rcv_buffer[buffer_hash]['num_packages'] - self._rcv_buffer[buffer_hash]['next_packet'] )",
   "number_of_packets_that_can_be_sent = self._rcv_buffer[buffer_hash]['num_packages_max_rec']"))

M("timer_drift", ["C12"], "periodic deadline = now + delta (drift)",
  ("j1939/electronic_control_unit.py",
   """                        while event['deadline'] <= now:
                            # just to take care of overruns
                            event['deadline'] += event['delta_time']""",
   """                        event['deadline'] = time.time() + event['delta_time'] + 0.0005"""))

M("timer_remove_first_only", ["C12"], "remove_timer removes only the first registration",
  ("j1939/electronic_control_unit.py",
   "        self._timer_events[:] = [event for event in self._timer_events if event['callback'] != callback]",
   """        for event in self._timer_events:
            if event['callback'] == callback:
                self._timer_events.remove(event)
                break"""))

M("timer_no_wakeup_on_add", ["C12"], "add_timer does not wake the job thread",
  ("j1939/electronic_control_unit.py",
   """        self._timer_events.append( d )
        self._job_thread_wakeup()""",
   """        self._timer_events.append( d )"""))
