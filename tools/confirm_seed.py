#!/venv/bin/python
"""Confirm a seeded change (DESIGN.md section 11) in a fresh scratch worktree of /repo and run checks against it.

usage: tools/confirm_seed.py <seed dir with patch.diff + demo.py> <name under seeded/> <property id> [check ids to run ...]
Steps: (1) demo on the unchanged tree must exit 0; (2) apply patch; (3) pinned suite must pass; (4) demo must exit non-zero;
(5) run the listed checks (default: the property's own) with VERIF_REPO=<worktree>; (6) write seeded/<name>/meta.json;
(7) remove the worktree."""
import json
import os
import shutil
import subprocess
import sys
import time

HERE = os.path.dirname(os.path.abspath(__file__))
VERIF = os.path.dirname(HERE)


def sh(cmd, cwd=None, env=None, timeout=3600):
    r = subprocess.run(cmd, cwd=cwd, env=env, capture_output=True, text=True, timeout=timeout)
    return r.returncode, r.stdout, r.stderr


def main():
    src, name, prop = sys.argv[1], sys.argv[2], sys.argv[3]
    checks = sys.argv[4:] or [prop]
    wt = "/tmp/confirm_%s_%d" % (name, os.getpid())
    rc, o, e = sh(["git", "-C", "/repo", "worktree", "add", "--detach", wt, "HEAD"])
    if rc:
        print("worktree failed", o, e)
        return 2
    meta = {"property": prop, "name": name, "base_commit": sh(["git", "-C", "/repo", "rev-parse", "--short", "HEAD"])[1].strip(), "ran": []}
    try:
        demo = os.path.join(src, "demo.py")
        env = dict(os.environ, PYTHONPATH=wt, PYTHONDONTWRITEBYTECODE="1")
        rc0, o0, e0 = sh(["/venv/bin/python", demo], cwd=wt, env=env, timeout=600)
        meta["demo_unchanged"] = {"rc": rc0, "tail": (o0 + e0).strip().splitlines()[-1:] }
        rc, o, e = sh(["git", "-C", wt, "apply", os.path.join(src, "patch.diff")])
        if rc:
            print("patch does not apply:", e)
            meta["patch_applies"] = False
            return 2
        rcs, os_, es = sh(["/venv/bin/python", "-m", "pytest", "-q", "-p", "no:cacheprovider", "--timeout=120"], cwd=wt, env=env)
        meta["suite_with_change"] = {"rc": rcs, "tail": os_.strip().splitlines()[-1:]}
        rc1, o1, e1 = sh(["/venv/bin/python", demo], cwd=wt, env=env, timeout=600)
        meta["demo_with_change"] = {"rc": rc1, "tail": (o1 + e1).strip().splitlines()[-1:]}
        meta["confirmed"] = (rc0 == 0 and rcs == 0 and rc1 != 0)
        out = os.path.join(wt, "_verif_out")
        os.makedirs(out)
        for cid in checks:
            t0 = time.time()
            rcc, oc, ec = sh(["/venv/bin/python", os.path.join(VERIF, "check.py"), cid, "--tier", "quick"], cwd=VERIF,
                             env=dict(os.environ, VERIF_REPO=wt, VERIF_OUT=out))
            buckets = [l.strip() for l in oc.splitlines() if l.startswith("  bucket:")]
            meta["ran"].append({"check": cid, "cmd": "VERIF_REPO=<worktree with patch> /venv/bin/python check.py %s --tier quick" % cid,
                                "rc": rcc, "seconds": round(time.time() - t0, 1), "buckets": buckets[:8],
                                "verdict": "CAUGHT" if rcc == 1 else ("MISSED" if rcc == 0 else "ERROR")})
            print("seed %-22s check %s: rc=%d %s %s" % (name, cid, rcc, meta["ran"][-1]["verdict"], buckets[:2]))
            if rcc == 2:
                print(oc[-800:], ec[-800:])
        dst = os.path.join(VERIF, "seeded", name)
        os.makedirs(dst, exist_ok=True)
        for f in ("patch.diff", "demo.py", "notes.md"):
            if os.path.exists(os.path.join(src, f)):
                shutil.copy(os.path.join(src, f), os.path.join(dst, f))
        old = {}
        if os.path.exists(os.path.join(dst, "meta.json")):
            old = json.load(open(os.path.join(dst, "meta.json")))
        for k in ("needs", "breaks", "origin"):
            if k in old:
                meta[k] = old[k]
        json.dump(meta, open(os.path.join(dst, "meta.json"), "w"), indent=1)
        print("confirmed=%s demo_unchanged=%s suite=%s demo_changed=%s" % (meta["confirmed"], rc0, rcs, rc1))
    finally:
        sh(["git", "-C", "/repo", "worktree", "remove", "--force", wt])
        shutil.rmtree(wt, ignore_errors=True)
    return 0


if __name__ == "__main__":
    sys.exit(main())
