"""Runner: shards generated-input search over processes, collects failures into buckets,
shrinks unknown ones, writes replay files and the evidence file.  DESIGN.md 2.5, 2.6, 4.

A check is an object with:
  ID, LEVEL, RULE, ASSUMPTIONS, TECHNIQUE
  strategy(tier)          -> hypothesis strategy of JSON-serialisable params (or None)
  examples(tier)          -> number of generated cases (total over shards)
  enumerate(tier)         -> list of params that are always run (finite / exhaustive parts)
  run_case(params)        -> dict(violations=[{kind,msg,bucket}], labels=[..], nontrivial=bool,
                                  subruns=int, sig=optional hashable)
  shrink_lists            -> tuple of key paths ("a.b") to lists whose elements may be dropped
  exhaustive(tier)        -> bool, evidence flag
"""
import os
import sys
import json
import time
import zlib
import glob
import hashlib
import traceback
import collections
import multiprocessing as mp
import multiprocessing.connection as mpc

from . import simkernel as sk

VERIF = os.path.dirname(os.path.dirname(os.path.abspath(__file__)))
NPROC = int(os.environ.get("VERIF_NPROC", "16"))
OUT = os.environ.get("VERIF_OUT") or VERIF      # evidence/ and replays/ go here (mutation runs use a scratch dir)


def canon(obj):
    return json.dumps(obj, sort_keys=True, separators=(",", ":"), default=_default)


def _default(o):
    if isinstance(o, (bytes, bytearray)):
        return o.hex()
    if isinstance(o, (set, frozenset)):
        return sorted(o)
    return repr(o)


def h64(s):
    return int.from_bytes(hashlib.blake2b(s.encode() if isinstance(s, str) else s, digest_size=8).digest(), "big")


def crc(*parts):
    return zlib.crc32(":".join(str(p) for p in parts).encode()) & 0x7FFFFFFF


# ------------------------------------------------------------------ process pool
def _child(fn, arg, conn):
    code = 0
    try:
        try:
            res = fn(arg)
        except sk.HarnessError as e:
            res = {"harness_error": "HarnessError: %s" % e, "tb": traceback.format_exc()}
        except BaseException as e:  # noqa
            res = {"harness_error": "%s: %s" % (type(e).__name__, e), "tb": traceback.format_exc()}
        try:
            conn.send(res)
        except Exception as e:  # unpicklable result
            conn.send({"harness_error": "cannot send result: %r" % e})
        conn.close()
    finally:
        sys.stdout.flush()
        sys.stderr.flush()
        os._exit(code)


def run_tasks(fn, args, nproc=None):
    nproc = nproc or NPROC
    ctx = mp.get_context("fork")
    pending = collections.deque(enumerate(args))
    running = {}
    results = [None] * len(args)
    while pending or running:
        while pending and len(running) < nproc:
            idx, arg = pending.popleft()
            r, w = ctx.Pipe(False)
            p = ctx.Process(target=_child, args=(fn, arg, w))
            p.start()
            w.close()
            running[r] = (idx, p)
        for r in mpc.wait(list(running), timeout=1.0):
            idx, p = running.pop(r)
            try:
                results[idx] = r.recv()
            except EOFError:
                p.join()
                results[idx] = {"harness_error": "worker died (exit code %s)" % p.exitcode}
            r.close()
            p.join()
    return results


# ----------------------------------------------------------------------- recorder
class Recorder:
    MAX_PER_BUCKET = 8

    def __init__(self, check, real_deadline=None):
        self.check = check
        self.evaluations = 0
        self.subruns = 0
        self.skipped = 0
        self.nontrivial = set()
        self.labels = collections.Counter()
        self.samples = []
        self.buckets = {}
        self.real_deadline = real_deadline
        self.extra = collections.Counter()

    def run(self, params, origin="generated"):
        if self.real_deadline is not None and time.time() > self.real_deadline:
            self.skipped += 1
            return None
        try:
            res = self.check.run_case(params)
        except sk.HarnessError:
            raise
        except Exception as e:   # noqa
            res = stack_exception_result(self.check, e)
            if res is None:
                raise
        self.evaluations += 1
        self.subruns += int(res.get("subruns", 1))
        for lab in res.get("labels", ()):
            self.labels[lab] += 1
        for k, v in (res.get("extra") or {}).items():
            self.extra[k] += v
        if res.get("nontrivial"):
            sig = res.get("sig")
            self.nontrivial.add(h64(canon(sig if sig is not None else params)))
            for s in res.get("nontrivial_sigs", ()):
                self.nontrivial.add(h64(canon(s)))
            if len(self.samples) < 3:
                self.samples.append(res.get("sample", params))
        for v in res.get("violations", ()):
            b = v["bucket"]
            lst = self.buckets.setdefault(b, [])
            vp = v.pop("params", None) or params      # a sub-run may name its own minimal params
            size = len(canon(vp))
            lst.append((size, vp, v, origin))
            lst.sort(key=lambda x: x[0])
            del lst[self.MAX_PER_BUCKET:]
        return res

    def result(self):
        return {
            "evaluations": self.evaluations, "subruns": self.subruns, "skipped": self.skipped,
            "nontrivial": list(self.nontrivial), "labels": dict(self.labels), "samples": self.samples,
            "buckets": {b: [(s, p, v, o) for s, p, v, o in lst] for b, lst in self.buckets.items()},
            "extra": dict(self.extra),
        }


def stack_exception_result(check, e):
    """An exception that escapes from the stack's own code (innermost frame under <repo>/j1939) out of a call the
    scenario made with valid arguments is a failure of the case, not of the harness; anything else is a harness error."""
    repo = os.path.abspath(os.environ.get("VERIF_REPO", "/repo")) + os.sep + "j1939" + os.sep
    tb = traceback.extract_tb(e.__traceback__)
    inner = tb[-1] if tb else None
    if inner is None or not os.path.abspath(inner.filename).startswith(repo):
        return None
    where = "%s:%s" % (os.path.basename(inner.filename), inner.name)
    return {"violations": [{"kind": "stack-exception",
                            "msg": "%s: %s raised by the stack at %s line %d during a call the scenario made with valid arguments"
                                   % (type(e).__name__, str(e)[:200], where, inner.lineno),
                            "bucket": "%s|stack-exception|%s|%s" % (check.ID, type(e).__name__, where)}],
            "labels": ["stack-exception"], "nontrivial": False}


def _shard_task(arg):
    check_id, tier, seed, shard, n, real_deadline = arg
    from checks import get_check
    chk = get_check(check_id)
    rec = Recorder(chk, real_deadline)
    strat = chk.strategy(tier)
    if strat is None or n <= 0:
        return rec.result()
    import hypothesis
    from hypothesis import given, settings, Phase, HealthCheck

    @hypothesis.seed(crc(seed, check_id, shard))
    @settings(max_examples=n, phases=[Phase.generate], database=None, deadline=None, derandomize=False,
              report_multiple_bugs=False, suppress_health_check=list(HealthCheck))
    @given(strat)
    def prop(params):
        rec.run(params)

    prop()
    return rec.result()


def _enum_task(arg):
    check_id, tier, chunk, origin, real_deadline = arg
    from checks import get_check
    chk = get_check(check_id)
    rec = Recorder(chk, real_deadline)
    for params in chunk:
        rec.run(params, origin)
    return rec.result()


# ------------------------------------------------------------------------- shrink
def _get(obj, path):
    for k in path:
        obj = obj[k]
    return obj


def _set(obj, path, val):
    obj = json.loads(canon(obj))
    o = obj
    for k in path[:-1]:
        o = o[k]
    o[path[-1]] = val
    return obj


def shrink(check, params, bucket, max_evals=150):
    """Greedy list-element removal on the check's declared lists; keeps the bucket."""
    evals = [0]

    def fails(p):
        if evals[0] >= max_evals:
            return False
        evals[0] += 1
        try:
            if hasattr(check, "valid") and not check.valid(p):
                return False
            res = check.run_case(p)
        except sk.HarnessError:
            raise
        except Exception:
            return False
        return any(v["bucket"] == bucket for v in res.get("violations", ()))

    best = json.loads(canon(params))
    changed = True
    while changed and evals[0] < max_evals:
        changed = False
        for pth in getattr(check, "shrink_lists", ()):
            path = pth.split(".")
            try:
                lst = _get(best, path)
            except (KeyError, IndexError, TypeError):
                continue
            if not isinstance(lst, list):
                continue
            n = len(lst)
            chunk = max(1, n // 2)
            while chunk >= 1 and evals[0] < max_evals:
                i = 0
                while i < len(lst) and evals[0] < max_evals:
                    cand_list = lst[:i] + lst[i + chunk:]
                    if len(cand_list) < getattr(check, "shrink_min", {}).get(pth, 0):
                        i += chunk
                        continue
                    cand = _set(best, path, cand_list)
                    if fails(cand):
                        best = cand
                        lst = cand_list
                        changed = True
                    else:
                        i += chunk
                chunk //= 2
        for cand in (check.simplify(best) if hasattr(check, "simplify") else ()):
            if evals[0] >= max_evals:
                break
            if fails(cand):
                best = json.loads(canon(cand))
                changed = True
    return best, evals[0]


# -------------------------------------------------------------------- known findings
def load_known(check_id):
    path = os.path.join(VERIF, "known_findings.json")
    if not os.path.exists(path):
        return []
    with open(path) as f:
        data = json.load(f)
    return [e for e in data.get("findings", []) if e.get("property") == check_id]


def match_known(entries, bucket):
    import re
    for e in entries:
        if e.get("status") != "open":
            continue
        pat = e.get("match", {}).get("bucket_re")
        if pat and re.search(pat, bucket):
            return e
    return None


def tree_id():
    repo = os.environ.get("VERIF_REPO", "/repo")
    try:
        import subprocess
        rev = subprocess.run(["git", "-C", repo, "rev-parse", "--short", "HEAD"], capture_output=True,
                             text=True, timeout=10).stdout.strip()
        dirty = subprocess.run(["git", "-C", repo, "status", "--porcelain", "--", "j1939"], capture_output=True,
                               text=True, timeout=10).stdout.strip()
        return rev + ("+dirty" if dirty else "")
    except Exception:
        return "unknown"


# --------------------------------------------------------------------------- main
def merge(results):
    tot = {"evaluations": 0, "subruns": 0, "skipped": 0, "nontrivial": set(), "labels": collections.Counter(),
           "samples": [], "buckets": {}, "extra": collections.Counter()}
    errors = []
    for r in results:
        if r is None:
            errors.append("missing result")
            continue
        if "harness_error" in r:
            errors.append(r["harness_error"] + ("\n" + r.get("tb", "") if r.get("tb") else ""))
            continue
        tot["evaluations"] += r["evaluations"]
        tot["subruns"] += r["subruns"]
        tot["skipped"] += r["skipped"]
        tot["nontrivial"].update(r["nontrivial"])
        tot["labels"].update(r["labels"])
        tot["extra"].update(r.get("extra", {}))
        if len(tot["samples"]) < 6:
            tot["samples"].extend(r["samples"][: 6 - len(tot["samples"])])
        for b, lst in r["buckets"].items():
            cur = tot["buckets"].setdefault(b, [])
            cur.extend(lst)
            cur.sort(key=lambda x: x[0])
            del cur[12:]
    return tot, errors


def corpus_params(check_id):
    out = []
    for path in sorted(glob.glob(os.path.join(VERIF, "corpus", check_id, "*.json"))):
        with open(path) as f:
            d = json.load(f)
        out.append(d["params"] if isinstance(d, dict) and "params" in d else d)
    return out


def run_check(check, tier, seed, wall_budget=None):
    t_start = time.time()
    cid = check.ID
    real_deadline = (t_start + wall_budget) if wall_budget else None
    tasks = []
    corp = corpus_params(cid)
    if corp:
        tasks.append((_enum_task, (cid, tier, corp, "corpus", None)))
    enum = list(check.enumerate(tier)) if hasattr(check, "enumerate") else []
    if enum:
        nchunks = min(len(enum), NPROC * 4)
        for i in range(nchunks):
            tasks.append((_enum_task, (cid, tier, enum[i::nchunks], "enumerated", real_deadline)))
    n = check.examples(tier) if check.strategy(tier) is not None else 0
    if n > 0:
        shards = min(NPROC * 2, max(1, n // 8))
        per = -(-n // shards)
        for s in range(shards):
            tasks.append((_shard_task, (cid, tier, seed, s, per, real_deadline)))

    def dispatch(t):
        return t[0](t[1])

    results = run_tasks(dispatch, tasks)
    tot, errors = merge(results)
    if errors:
        print("HARNESS ERROR in %s:" % cid)
        for e in errors[:3]:
            print(e)
        return 2

    # optional second engine (e.g. coverage-guided fuzzing): returns extra failing cases and counters
    extra_info = None
    if hasattr(check, "extra_engine"):
        try:
            extra_info = check.extra_engine(tier, seed, OUT)
        except sk.HarnessError as he:
            print("HARNESS ERROR in the second engine of %s: %s" % (cid, he))
            return 2
        for (b, params, v) in extra_info.get("failures", []):
            tot["buckets"].setdefault(b, []).append((len(canon(params)), params, v, extra_info.get("engine", "extra")))
        tot["evaluations"] += extra_info.get("evaluations", 0)
        tot["subruns"] += extra_info.get("evaluations", 0)

    known = load_known(cid)
    violations = []
    known_hit = {}
    os.makedirs(os.path.join(OUT, "replays", cid), exist_ok=True)
    for b in sorted(tot["buckets"]):
        size, params, v, origin = tot["buckets"][b][0]
        e = match_known(known, b)
        if e is not None:
            known_hit.setdefault(e["id"], []).append(b)
            continue
        # prefer a witness that shows the violation when it is run on its own in this (fresh) process: a violation that needs
        # the cases run before it in a worker (state the library keeps between objects) would not replay from its file
        isolated = False
        for wi, (size_, params_, v_, origin_) in enumerate(tot["buckets"][b]):
            if _shows_alone(cid, params_, b, "%s.w%d" % (hashlib.sha1(b.encode()).hexdigest()[:12], wi)):
                size, params, v, origin = size_, params_, v_, origin_
                isolated = True
                break
        try:
            small, evals = shrink(check, params, b, max_evals=(150 if tier == "quick" else 600))
        except sk.HarnessError as he:
            print("HARNESS ERROR while shrinking: %s" % he)
            return 2
        # take the violation message from the shrunk case
        try:
            res = check.run_case(small)
            vv = [x for x in res.get("violations", ()) if x["bucket"] == b]
            if vv:
                v = vv[0]
            else:
                small = params
        except Exception:
            small = params
        if isolated and canon(small) != canon(params) and \
                not _shows_alone(cid, small, b, "%s.s" % hashlib.sha1(b.encode()).hexdigest()[:12]):
            small = params                # (shrinking in this process was helped by state left by earlier cases)
        name = "%s.json" % hashlib.sha1(b.encode()).hexdigest()[:12]
        path = os.path.join(OUT, "replays", cid, name)
        with open(path, "w") as f:
            json.dump({"property": cid, "tier": tier, "seed": seed, "bucket": b, "violation": v,
                       "origin": origin, "params": small, "tree": tree_id(), "shrink_evals": evals,
                       "reproduces_on_its_own": isolated,
                       "note": None if isolated else "none of the witnesses of this bucket shows the violation when run alone in a fresh "
                       "process: it depends on the cases run before it in the same worker (state kept by the library between "
                       "objects); re-run the check command with the same VERIF_SEED to see it again"},
                      f, indent=1, sort_keys=True, default=_default)
        violations.append((b, path, v))

    for e in known:
        if e.get("status") == "open":
            hit = known_hit.get(e["id"])
            print("KNOWN-FINDING: property=%s %s [%s] %s" % (cid, e["id"], "reproduced" if hit else "not reproduced in this run",
                                                            e.get("what", "")))
    for b, path, v in violations:
        print("VIOLATION property=%s replay=%s" % (cid, path))
        print("  bucket: %s" % b)
        print("  %s" % (v.get("msg", "")[:600]))

    wall = time.time() - t_start
    cov = {
        "evaluations": tot["evaluations"],
        "distinct_nontrivial": len(tot["nontrivial"]),
        "rule": check.RULE,
        "samples": tot["samples"][:6],
        "subruns": tot["subruns"],
        "classes": dict(sorted(tot["labels"].items())),
        "exhaustive": bool(check.exhaustive(tier)) if hasattr(check, "exhaustive") else False,
        "corpus_cases": len(corp),
        "enumerated_cases": len(enum),
        "generated_cases_requested": n,
        "skipped_after_wall_budget": tot["skipped"],
        "known_findings_reproduced": sorted(known_hit),
        "violation_buckets": [b for b, _, _ in violations],
        "technique": getattr(check, "TECHNIQUE", ""),
        "tree": tree_id(),
    }
    if tot["extra"]:
        cov["counters"] = dict(sorted(tot["extra"].items()))
    if extra_info is not None:
        cov["second_engine"] = {k: v for k, v in extra_info.items() if k != "failures"}
    if hasattr(check, "coverage_note"):
        cov["explanation"] = check.coverage_note(tier)
    ev = {
        "property_id": cid, "tier": tier, "seed": int(seed), "level": check.LEVEL, "coverage": cov,
        "assumptions": list(check.ASSUMPTIONS), "wall_s": round(wall, 2), "violations": len(violations),
    }
    os.makedirs(os.path.join(OUT, "evidence"), exist_ok=True)
    with open(os.path.join(OUT, "evidence", cid + ".json"), "w") as f:
        json.dump(ev, f, indent=1, sort_keys=True, default=_default)
    print("%s %s seed=%s: %d cases (%d sub-runs), %d distinct non-trivial, %d violation bucket(s), %d known, %.1fs"
          % (cid, tier, seed, tot["evaluations"], tot["subruns"], len(tot["nontrivial"]), len(violations),
             len(known_hit), wall))
    return 1 if violations else 0


def _shows_alone(cid, params, bucket, tag):
    """Does the case show this bucket when it is the only case of a fresh process?"""
    import subprocess
    tmp = os.path.join(OUT, "replays", cid, "_witness_%s.json" % tag)
    with open(tmp, "w") as f:
        json.dump({"params": params}, f, default=_default)
    try:
        r = subprocess.run([sys.executable, os.path.join(VERIF, "check.py"), cid, "--replay", tmp], capture_output=True, text=True,
                           timeout=900, cwd=VERIF)
        return r.returncode == 1 and ("bucket: %s\n" % bucket) in r.stdout
    except Exception:
        return False
    finally:
        try:
            os.remove(tmp)
        except OSError:
            pass


def replay(check, path):
    with open(path) as f:
        d = json.load(f)
    params = d["params"] if isinstance(d, dict) and "params" in d else d
    try:
        res = check.run_case(params)
    except sk.HarnessError:
        raise
    except Exception as e:   # noqa
        res = stack_exception_result(check, e)
        if res is None:
            raise
    known = load_known(check.ID)
    bad = 0
    for v in res.get("violations", ()):
        e = match_known(known, v["bucket"])
        if e is not None:
            print("KNOWN-FINDING: property=%s %s %s" % (check.ID, e["id"], e.get("what", "")))
            continue
        bad += 1
        print("VIOLATION property=%s replay=%s" % (check.ID, path))
        print("  bucket: %s" % v["bucket"])
        print("  %s" % v.get("msg", "")[:2000])
    if not res.get("violations"):
        print("%s replay %s: property held" % (check.ID, path))
    return 1 if bad else 0
