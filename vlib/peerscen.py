"""Stack vs. independent reference peer, in either role.  Shared by C03 (wire format) and C09
(flow control / pacing).  DESIGN.md 5/C03, 5/C09.
"""
from hypothesis import strategies as st

from . import world as W
from . import simbus
from . import refcodec as R
from .refpeer import RefPeer
from .netmodel import lengths_21, lengths_22, CLASSES, EPS_GRID, RESERVED_PF, pdu1_format

SA_S, SA_P = 0x30, 0x90


def peer_strategy(dll=None, roles=("orig", "resp"), modes=("rts", "rts", "bam"), intervals=False):
    @st.composite
    def build(draw):
        d = dll or draw(st.sampled_from(["j1939-21", "j1939-22"]))
        fd = d == "j1939-22"
        role = draw(st.sampled_from(list(roles)))
        mode = draw(st.sampled_from(list(modes)))
        n = draw(lengths_22() if fd else lengths_21().filter(lambda x: x >= 9))
        if intervals and mode == "bam":
            # keep BAM transfers with long intervals short enough to stay cheap
            n = min(n, 60 * 8 if fd else 7 * 12)
            n = max(n, 61 if fd else 9)
        seg = 60 if fd else 7
        packets = -(-n // seg)
        p = {"dll": d, "role": role, "mode": mode,
             "pl": {"n": n, "cls": draw(st.sampled_from(CLASSES)), "a": draw(st.integers(0, 255)),
                    "b": draw(st.integers(1, 255)), "tile": draw(st.lists(st.integers(0, 255), min_size=1, max_size=6)),
                    "seg": seg},
             "max_cmdt": draw(st.one_of(st.sampled_from([1, 1, 2, 3, 5, 16, 255]), st.integers(1, 255))),
             "max_cmdt_r": draw(st.one_of(st.sampled_from([1, 1, 2, 3, 5, 16, 255]), st.integers(1, 255))),
             "dp": draw(st.integers(0, 1)), "prio": draw(st.integers(0, 7)),
             "lat": {"S": draw(st.lists(st.sampled_from(simbus.LATENCY_GRID), min_size=1, max_size=3)),
                     "P": draw(st.lists(st.sampled_from(simbus.LATENCY_GRID), min_size=1, max_size=3))},
             "eps": draw(st.lists(st.sampled_from(EPS_GRID[:4]), min_size=1, max_size=2)),
             "disp": draw(st.lists(st.sampled_from(EPS_GRID[:4]), min_size=1, max_size=2)),
             "bam_dt": None, "rts_dt": None,
             "sas": draw(st.sampled_from([[0x30, 0x90], [0x30, 0x90], [0x00, 0x90], [0x30, 0x00], [0x01, 0xFD], [0xFD, 0x80],
                                          [0x7F, 0xF7], [0xF8, 0x7F]])),
             "tx_time": draw(st.sampled_from([0.0, 0.0, 0.0, 0.0001, 0.0005])),
             "app_timer": draw(st.sampled_from([None, None, None, 0.3, 1.0, 2.0]))}
        if mode == "bam":
            kind = draw(st.sampled_from(["pdu2", "pdu1"]))
            if kind == "pdu2":
                p["pf"], p["ps"] = draw(st.integers(240, 255)), draw(st.integers(0, 255))
            else:
                p["pf"], p["ps"] = draw(pdu1_format(p["dp"])), 255
        else:
            p["pf"], p["ps"] = draw(pdu1_format(p["dp"])), None
        if intervals:
            p["earlier"] = draw(st.sampled_from([None, None, None, {"max_cmdt": 255, "bam_dt": 0.01, "rts_dt": 0.001},
                                                 {"max_cmdt": 1, "bam_dt": 0.19, "rts_dt": 0.05}]))
            if mode == "bam":
                p["bam_dt"] = draw(st.sampled_from([None, None, 0.01, 0.02, 0.05, 0.075, 0.1, 0.15, 0.19]))
            else:
                p["rts_dt"] = draw(st.sampled_from([None, None, 0.001, 0.002, 0.005, 0.01, 0.02, 0.05]))
                # a frame write of the stack's thread that waits before the frame is on the bus (full transmit queue): the frame
                # appears when the write returns
                p["tx_pre"] = draw(st.sampled_from([0.0, 0.0, 0.0005, 0.002, [0.004, 0.0], [0.0, 0.002, 0.0005], [0.001, 0.0, 0.0, 0.003]]))
        # the peer's free choices, all inside the standard's envelope
        peer = {"grants": draw(st.lists(st.one_of(st.sampled_from([1, 1, 2, 3, 255]), st.integers(1, 255)), min_size=1, max_size=4)),
                "holds": draw(st.lists(st.sampled_from([0, 0, 0, 1, 2, 3]), min_size=1, max_size=3)),
                "hold_gap": draw(st.sampled_from([0.1, 0.2, 0.3, 0.45, 0.49, 0.499])),
                # grant indices at which the responder asks for the previous window again (retransmission request)
                "rereq": draw(st.sampled_from([[], [], [], [1], [2], [1, 2], [1, 3]])),
                "reply_lat": draw(st.lists(st.sampled_from([0.0002, 0.001, 0.005, 0.02, 0.05, 0.1, 0.15]), min_size=1, max_size=3)),
                "limit": draw(st.one_of(st.sampled_from([1, 2, 3, 16, 255]), st.integers(1, 255))),
                "dt_gap": draw(st.sampled_from([0.0, 0.0002, 0.001, 0.005, 0.02, 0.05, 0.1, 0.19])),
                "bam_gap": draw(st.sampled_from([0.05, 0.06, 0.1, 0.2] if not fd else [0.01, 0.02, 0.05, 0.1, 0.2])),
                "session": draw(st.integers(0, 7 if mode == "rts" else 3) if fd else st.just(0))}
        # keep long transfers cheap: large gaps only with few packets
        if packets > 40:
            peer["dt_gap"] = min(peer["dt_gap"], 0.005)
            peer["reply_lat"] = [min(x, 0.005) for x in peer["reply_lat"]]
            if role == "resp" and mode == "bam":
                peer["bam_gap"] = 0.05 if not fd else 0.01
            if packets > 120:
                peer["holds"] = [0]
        p["peer"] = peer
        # C09: further broadcast sessions of the same stack running at the same time (J1939-22 allows four per originator);
        # each is paced on its own, whatever the others do
        # (J1939-21 has one broadcast session per source address: there the companions come from further CAs of the stack)
        if intervals and mode == "bam" and role in ("orig", "s2s"):
            p["companions"] = draw(st.lists(st.fixed_dictionaries({
                "n": st.sampled_from([61, 121, 181, 250, 400, 700] if fd else [9, 15, 22, 36, 50, 100]),
                "dt_ms": st.sampled_from([0, 0, 1, 3, 7, 10, 25]),
                "first": st.booleans()}), max_size=3 if fd else 2))
            p["tx_time"] = draw(st.sampled_from([0.0, 0.0001, 0.0005, 0.002])) if p["companions"] else p["tx_time"]
        return p
    return build()


def base_case(dll, role, mode, packets, i=0, peer=None, **over):
    """A plain, fully specified case for enumerations (every free choice at its most ordinary value)."""
    seg = 60 if dll == "j1939-22" else 7
    p = {"dll": dll, "role": role, "mode": mode,
         "pl": {"n": seg * (packets - 1) + 1 + i % (seg - 1), "cls": "arith", "a": i % 256, "b": 3, "tile": [1], "seg": seg},
         "max_cmdt": 255, "max_cmdt_r": 255, "dp": 0, "prio": 6,
         "lat": {"S": [0.0005], "P": [0.0005]}, "eps": [0.0], "disp": [0.0], "bam_dt": None, "rts_dt": None,
         "sas": [0x30, 0x90], "tx_time": 0.0, "app_timer": None, "pf": 0xD1, "ps": None if mode == "rts" else 255,
         "peer": {"grants": [255], "holds": [0], "hold_gap": 0.1, "rereq": [], "reply_lat": [0.001],
                  "limit": 255, "dt_gap": 0.001, "bam_gap": 0.05, "session": (i % 8 if mode == "rts" else i % 4) if dll == "j1939-22" else 0}}
    p.update(over)
    p["peer"].update(peer or {})
    return p


class _NoPeer:
    messages = ()
    errors = ()
    events = ()
    tx_sessions = {}
    rx_sessions = {}


def expected_pgn(p):
    if p["mode"] == "bam" and p["pf"] >= 240:
        return (p["dp"] << 16) | (p["pf"] << 8) | p["ps"]
    return (p["dp"] << 16) | (p["pf"] << 8)


def packets_of(p):
    return -(-p["pl"]["n"] // p["pl"]["seg"])


def run(p):
    """Returns observations dict; the world is closed on return."""
    fd = p["dll"] == "j1939-22"
    peer_cfg = p["peer"]
    SA_S, SA_P = p.get("sas", [0x30, 0x90])
    w = W.World(latency=p["lat"], wake_eps=p["eps"], dispatch=p["disp"])
    obs = {}
    try:
        if p.get("earlier"):
            # another ECU object with a configuration of its own was created earlier in the same process (it is not on this bus):
            # what one object is configured with is its own business
            e = p["earlier"]
            w.bus.detach(w.stack("E", dll=p["dll"], max_cmdt=e["max_cmdt"], bam_dt=e["bam_dt"], rts_cts_dt=e["rts_dt"]))
        s = w.stack("S", dll=p["dll"], max_cmdt=p["max_cmdt"], bam_dt=p["bam_dt"], rts_cts_dt=p["rts_dt"],
                    tx_time=p.get("tx_time", 0.0), tx_pre=p.get("tx_pre", 0.0))
        s.add_ca("s", 0x100, SA_S)
        s.listen_ca("s")
        if p.get("app_timer"):
            s.ecu.add_timer(p["app_timer"], lambda cookie: True)      # a cyclic application job on the same ECU
        if p["role"] == "s2s":
            s2 = w.stack("P", dll=p["dll"], max_cmdt=p["max_cmdt_r"])
            s2.add_ca("p", 0x200, SA_P)
            s2.listen_ca("p")
            peer = _NoPeer()
        else:
            s2 = None
            peer = RefPeer(w.bus, "P", SA_P, fd=fd, grants=peer_cfg["grants"], holds=peer_cfg["holds"],
                           reply_lat=peer_cfg["reply_lat"], hold_gap=peer_cfg["hold_gap"])
            peer.rereq = list(peer_cfg.get("rereq", []))
        data = W.make_payload(p["pl"])
        n = packets_of(p)
        pgn = expected_pgn(p)
        res = {}
        maxlat = max(max(p["lat"]["S"]), max(p["lat"]["P"]))
        if p["role"] in ("orig", "s2s"):
            ps = SA_P if p["mode"] == "rts" else p["ps"]

            def submit():
                try:
                    res["r"] = s.cas["s"].send_pgn(p["dp"], p["pf"], ps, p["prio"], list(data))
                except Exception as e:  # noqa
                    res["r"] = "EXC:%s:%s" % (type(e).__name__, str(e)[:100])
            comp = p.get("companions") or []
            comp_ca = []
            for ci_, c_ in enumerate(comp):
                if fd:
                    comp_ca.append(s.cas["s"])
                else:
                    free = [a for a in (0x31, 0x32, 0x33, 0x34) if a not in (SA_S, SA_P)]
                    comp_ca.append(s.add_ca("s%d" % (ci_ + 2), 0x110 + ci_, free[ci_]))

            def companion(ci_, c_):
                return lambda: comp_ca[ci_].send_pgn(0, 0xFF, 0x10 + ci_, 6, list(W.make_payload(
                    {"n": c_["n"], "cls": "arith", "a": 11 + ci_, "b": 3})))
            for ci_, c_ in enumerate(comp):
                if c_["first"] and c_["dt_ms"] == 0:
                    w.at(0.05, companion(ci_, c_))
            w.at(0.05, submit)
            for ci_, c_ in enumerate(comp):
                if not (c_["first"] and c_["dt_ms"] == 0):
                    w.at(0.05 + c_["dt_ms"] / 1000.0, companion(ci_, c_))
            if p["mode"] == "rts":
                per = max(peer_cfg["reply_lat"]) + 2 * maxlat + (p["rts_dt"] or 0) + 0.003 + 2 * p.get("tx_time", 0.0)
                holds = max(peer_cfg["holds"]) * peer_cfg["hold_gap"]
                windows = n * (1 + len(peer_cfg.get("rereq", [])))   # worst case window 1; re-requested windows are sent again
                horizon = 0.05 + windows * (per + holds) + 2.0
                if holds:
                    nw = n * (1 + len(peer_cfg.get("rereq", [])))
                    horizon = min(horizon, 0.05 + nw * per + min(nw, 200) * holds + 2.0)
            else:
                interval = p["bam_dt"] if p["bam_dt"] is not None else (0.01 if fd else 0.05)
                nmax = max([n] + [-(-c_["n"] // (60 if fd else 7)) for c_ in comp])
                horizon = 0.05 + (nmax + 2) * (interval + 0.003 + p.get("tx_time", 0.0) * (1 + len(comp))) + 1.0 + 0.03
        else:
            if p["mode"] == "rts":
                w.at(0.05, lambda: peer.originate_rts(SA_S, pgn, data, limit=peer_cfg["limit"], dt_gap=peer_cfg["dt_gap"],
                                                      session=peer_cfg["session"], prio=p["prio"]))
                horizon = 0.05 + n * (peer_cfg["dt_gap"] + 2 * maxlat + 0.003) + 2.0
            else:
                w.at(0.05, lambda: peer.originate_bam(pgn, data, gap=peer_cfg["bam_gap"], session=peer_cfg["session"],
                                                      prio=p["prio"]))
                horizon = 0.05 + (n + 2) * (peer_cfg["bam_gap"] + 0.001) + 1.0
        w.run_until(w.t0 + horizon + (3.5 if fd else 0))
        obs.update({
            "send_result": res.get("r"), "log": list(w.bus.log), "peer_messages": list(peer.messages),
            "peer_errors": list(peer.errors), "peer_events": list(peer.events),
            "peer_tx": {str(k): {kk: vv for kk, vv in v.items() if kk != "data"} for k, v in peer.tx_sessions.items()},
            "peer_rx": {str(k): {kk: vv for kk, vv in v.items() if kk != "data"} for k, v in peer.rx_sessions.items()},
            "deliveries": list(s.deliveries), "swallowed": list(s.swallowed), "tables": s.peek_sessions(),
            "deliveries_r": list(s2.deliveries) if s2 is not None else [],
            "live": w.liveness_problems(), "alive": s.alive(), "data": bytes(data), "pgn": pgn, "packets": n,
            "horizon": horizon,
        })
    finally:
        w.close()
    return obs


# ------------------------------------------------------------------ C03 judge
def judge_wire(p, obs, V):
    SA_S, SA_P = p.get("sas", [0x30, 0x90])
    fd = p["dll"] == "j1939-22"
    site = "%s|%s|%s" % ("22" if fd else "21", p["role"], p["mode"])
    data, pgn = obs["data"], obs["pgn"]
    for k2, detail, tt in obs["live"]:
        V("liveness-" + k2, "%s %r" % (k2, detail), site)
    for t, kind, msg in obs["peer_errors"]:
        V("format-" + kind, "reference decoder: %s (t=%.4f)" % (msg, t - 1000), site)
        break
    if p["role"] == "orig":
        if obs["send_result"] is not True:
            V("send-failed", "send_pgn returned %r" % (obs["send_result"],), site)
            return False
        msgs = obs["peer_messages"]
        dst = SA_P if p["mode"] == "rts" else 255
        good = [m for m in msgs if m[1] == SA_S and m[2] == dst and m[3] == pgn and m[4] == data]
        if len(msgs) != 1 or len(good) != 1:
            if not msgs:
                V("not-decoded", "the reference implementation decoded no message from the emitted frames "
                  "(%d frames on the bus)" % len(obs["log"]), site)
            elif len(good) == 0:
                m = msgs[0]
                what = "pgn" if m[3] != pgn else ("payload" if m[4] != data else "addresses")
                V("decoded-wrong-" + what, "reference decoded pgn=0x%X len=%d src=%d dst=%d; sent pgn=0x%X len=%d" %
                  (m[3], len(m[4]), m[1], m[2], pgn, len(data)), site)
            else:
                V("decoded-twice", "reference decoded %d messages" % len(msgs), site)
            return False
        return True
    # stack as responder
    got = [d for d in obs["deliveries"] if d[3] == pgn and d[4] == SA_P]
    other = [d for d in obs["deliveries"] if not (d[3] == pgn and d[4] == SA_P)]
    ok = True
    if len(got) != 1:
        V("not-delivered" if not got else "delivered-twice", "message from the reference originator delivered %d times "
          "(%d other deliveries%s)" % (len(got), len(other), (": pgn=0x%X len=%d" % (other[0][3], len(other[0][5] or b"")))
                                       if other else ""), site)
        ok = False
    elif got[0][5] != data:
        V("delivered-corrupt", "delivered payload differs (len %d vs %d)" % (len(got[0][5]), len(data)), site)
        ok = False
    if other:
        V("invented-delivery", "unrelated delivery pgn=0x%X sa=%d len=%d" % (other[0][3], other[0][4], len(other[0][5] or b"")), site)
    if p["mode"] == "rts":
        sess = list(obs["peer_tx"].values())
        if sess and "acked" not in sess[0] and ok:
            V("not-acknowledged", "the stack delivered the message but never sent the end-of-message acknowledgement "
              "(session state %r)" % ({k: sess[0].get(k) for k in ("sent", "packets", "aborted")},), site)
    else:
        # silence during BAM reception: the stack must not transmit anything
        tx = [e for e in obs["log"] if e.node == "S"]
        if tx:
            V("tx-during-bam", "the stack transmitted %d frame(s) while receiving a broadcast (first id 0x%08X)" %
              (len(tx), tx[0].can_id), site)
    return ok


# ------------------------------------------------------------------ C09 judge
def judge_clearance(log, fd, o_node, r_node, sa_o, sa_r, rts_dt, V, site, counters):
    """Originator o_node must only send cleared data packets, in order, spaced by rts_dt when configured."""
    cm_pf, dt_pf = (R.FD_CM_PF, R.FD_DT_PF) if fd else (R.TP_CM_PF, R.TP_DT_PF)
    sessions = {}     # session nibble (0 on J1939-21) -> state
    for e in log:
        f = R.id_fields(e.can_id)
        if e.node == o_node and f["pf"] == cm_pf and f["ps"] == sa_r and f["sa"] == sa_o:
            c = (e.data[0] & 0xF) if fd else e.data[0]
            if c == (R.FD_RTS if fd else R.RTS):
                sessions[(e.data[0] >> 4) if fd else 0] = {"from": 1, "to": 0, "nxt": 1, "last_t": None, "wpos": 0, "ncts": 0}
        elif e.node == r_node and f["pf"] == cm_pf and f["ps"] == sa_o and f["sa"] == sa_r:
            c = (e.data[0] & 0xF) if fd else e.data[0]
            if c == (R.FD_CTS if fd else R.CTS):
                st_ = sessions.get((e.data[0] >> 4) if fd else 0)
                if st_ is None:
                    continue
                st_["ncts"] += 1
                counters["cts_seen"] += 1
                if fd:
                    n, first = e.data[7], R.from_le24(e.data[4:7])
                else:
                    n, first = e.data[1], e.data[2]
                if n == 0:
                    st_["from"], st_["to"] = 1, 0
                    counters["holds_seen"] += 1
                else:
                    st_["from"], st_["to"], st_["nxt"] = first, first + n - 1, first
                st_["wpos"] = 0
        elif e.node == o_node and f["pf"] == dt_pf and f["ps"] == sa_r and f["sa"] == sa_o:
            sess = (e.data[0] >> 4) if fd else 0
            st_ = sessions.get(sess)
            seq = R.from_le24(e.data[1:4]) if fd else e.data[0]
            if st_ is None:
                V("dt-without-session", "data packet %d on the bus without a preceding RTS" % seq, site)
                return
            if not (st_["from"] <= seq <= st_["to"]):
                V("dt-not-cleared", "data packet %d put on the bus at t=%.5f but the responder had cleared %s" %
                  (seq, e.t - 1000, ("%d..%d" % (st_["from"], st_["to"])) if st_["to"] >= st_["from"] else
                   ("nothing (no CTS yet)" if st_["ncts"] == 0 else "nothing (hold)")), site)
                return
            if seq != st_["nxt"]:
                V("dt-out-of-order", "data packet %d sent, %d expected" % (seq, st_["nxt"]), site)
                return
            st_["nxt"] = seq + 1
            if rts_dt is not None and st_["last_t"] is not None:
                gap = e.t - st_["last_t"]
                if gap < rts_dt - 1e-9:
                    V("rts-dt-spacing", "connection-mode data packets %d and %d are %.6f s apart, configured minimum %.6f s (%s)"
                      % (seq - 1, seq, gap, rts_dt, "inside one CTS window" if st_["wpos"] > 0 else "first packet after a CTS"),
                      site + ("|in-window" if st_["wpos"] > 0 else "|after-cts"))
                    return
                counters["rts_dt_gaps_checked"] += 1
            st_["last_t"] = e.t
            st_["wpos"] += 1


def judge_bam_pacing(log, fd, node, interval, L, V, site, counters):
    cm_pf, dt_pf = (R.FD_CM_PF, R.FD_DT_PF) if fd else (R.TP_CM_PF, R.TP_DT_PF)
    prev = {}
    for e in log:
        if e.node != node:
            continue
        f = R.id_fields(e.can_id)
        if f["pf"] == cm_pf and f["ps"] == 255:
            c = (e.data[0] & 0xF) if fd else e.data[0]
            if c == (R.FD_BAM if fd else R.BAM):
                prev[(f["sa"], (e.data[0] >> 4) if fd else 0)] = e.t
        elif f["pf"] == dt_pf and f["ps"] == 255:
            key = (f["sa"], (e.data[0] >> 4) if fd else 0)
            if key not in prev:
                continue
            gap = e.t - prev[key]
            if gap < interval - 1e-9:
                V("bam-too-fast", "broadcast data packets %.6f s apart, configured/default minimum %.6f s" % (gap, interval), site)
                return
            if gap > max(0.2, interval) + L + 1e-9:
                V("bam-too-slow", "broadcast data packets %.6f s apart in an otherwise idle stack; at most %.3f s allowed"
                  % (gap, max(0.2, interval)), site)
                return
            counters["bam_gaps_checked"] += 1
            prev[key] = e.t


def judge_grants(log, fd, o_node, r_node, sa_o, sa_r, own_max, V, site, counters):
    """Responder r_node: every CTS count <= min(RTS limit, own maximum, packets remaining)."""
    cm_pf, dt_pf = (R.FD_CM_PF, R.FD_DT_PF) if fd else (R.TP_CM_PF, R.TP_DT_PF)
    sessions = {}
    for e in log:
        f = R.id_fields(e.can_id)
        if e.node == o_node and f["sa"] == sa_o and f["ps"] == sa_r:
            if f["pf"] == cm_pf:
                c = (e.data[0] & 0xF) if fd else e.data[0]
                if c == (R.FD_RTS if fd else R.RTS):
                    if fd:
                        sessions[e.data[0] >> 4] = {"packets": R.from_le24(e.data[4:7]), "limit": e.data[7], "got": 0}
                    else:
                        sessions[0] = {"packets": e.data[3], "limit": e.data[4], "got": 0}
            elif f["pf"] == dt_pf:
                st_ = sessions.get((e.data[0] >> 4) if fd else 0)
                if st_ is not None:
                    st_["got"] += 1
        elif e.node == r_node and f["sa"] == sa_r and f["ps"] == sa_o and f["pf"] == cm_pf:
            c = (e.data[0] & 0xF) if fd else e.data[0]
            if c == (R.FD_CTS if fd else R.CTS):
                st_ = sessions.get((e.data[0] >> 4) if fd else 0)
                if st_ is None:
                    continue
                cnt = e.data[7] if fd else e.data[1]
                remaining = st_["packets"] - st_["got"]
                counters["grants_checked"] += 1
                limit = st_["limit"]
                if cnt > min(limit, own_max, remaining):
                    if cnt > limit:
                        which, tag = "the originator's RTS limit %d" % limit, "limit"
                    elif cnt > own_max:
                        which, tag = "its own configured maximum %d" % own_max, "own"
                    else:
                        which, tag = "the %d packets that remain" % remaining, "remaining"
                    V("over-grant", "CTS grants %d packets, more than %s" % (cnt, which), site + "|" + tag)
                    return


def judge_flow(p, obs, V, counters):
    SA_S, SA_P = p.get("sas", [0x30, 0x90])
    fd = p["dll"] == "j1939-22"
    site = "%s|%s|%s" % ("22" if fd else "21", p["role"], p["mode"])
    log = obs["log"]
    L = max(p["eps"]) + max(p["disp"]) + 1e-5
    if p.get("companions"):
        # a due data frame may wait for the frames of the other sessions the job thread is still writing
        L += p.get("tx_time", 0.0) * (1 + len(p["companions"]))
    for k2, detail, tt in obs["live"]:
        V("liveness-" + k2, "%s %r" % (k2, detail), site)
    if p["mode"] == "rts":
        if p["role"] in ("orig", "s2s"):
            judge_clearance(log, fd, "S", "P", SA_S, SA_P, p["rts_dt"], V, site, counters)
        if p["role"] == "resp":
            judge_grants(log, fd, "P", "S", SA_P, SA_S, p["max_cmdt"], V, site, counters)
        if p["role"] == "s2s":
            judge_grants(log, fd, "S", "P", SA_S, SA_P, p["max_cmdt_r"], V, site, counters)
    elif p["role"] in ("orig", "s2s"):
        interval = p["bam_dt"] if p["bam_dt"] is not None else (0.01 if fd else 0.05)
        judge_bam_pacing(log, fd, "S", interval, L, V, site, counters)
