"""CAN bus model with per-receiver latency, total bus order and fault injection.

DESIGN.md section 2.2.  A node is any object with ``name`` and ``rx(frame)``.
"""
import collections

Frame = collections.namedtuple("Frame", "can_id ext fd data remote error")


def mkframe(can_id, data, ext=True, fd=False, remote=False, error=False):
    return Frame(int(can_id), bool(ext), bool(fd), bytes(data), bool(remote), bool(error))


LogEntry = collections.namedtuple("LogEntry", "k t node can_id ext fd data")

LATENCY_GRID = [0.0, 1e-6, 50e-6, 0.0002, 0.0005, 0.001, 0.0025, 0.005]


class Bus:
    def __init__(self, sim, latency=None, default_latency=(0.0005,), drop=(), silence=None,
                 reconnect_at=None, inject=None):
        """
        latency: {node_name: [seconds...]} cycled per receiver by frame index
        drop: bus frame numbers (1-based, in bus order) lost for every receiver
        silence: {node_name: from_k} - the node is cut off from the moment bus frame number
                 from_k *would* be put on the bus or delivered (TX and RX discarded)
        inject: [{after_k, node, frame}] raw frames put on the bus right after frame k
        """
        self.sim = sim
        self.nodes = []
        self.latency = dict(latency or {})
        self.default_latency = list(default_latency)
        self.log = []                 # LogEntry, frames that reached the bus
        self.discarded = []           # (t, node, frame) TX of silenced nodes
        self.drop = set(drop or ())
        self.silence = dict(silence or {})
        self.silenced = set()
        self.reconnect_at = reconnect_at
        self.inject = collections.defaultdict(list)
        for inj in (inject or []):
            self.inject[int(inj["after_k"])].append(inj)
        self._rxcount = collections.Counter()
        self._last_t = {}
        self._fifo = {}
        self._delivering = set()
        self.taps = []                # callables(entry) called for every logged frame
        self.dead = False
        self.k = 0

    def attach(self, node):
        self.nodes.append(node)
        self._fifo[node.name] = collections.deque()
        self._last_t[node.name] = 0.0
        return node

    def detach(self, node):
        self.nodes.remove(node)

    def _lat(self, name):
        lst = self.latency.get(name) or self.default_latency
        i = self._rxcount[name]
        self._rxcount[name] += 1
        return lst[i % len(lst)]

    def set_silenced(self, name, flag=True):
        if flag:
            self.silenced.add(name)
        else:
            self.silenced.discard(name)

    MAX_FRAMES = 30000          # per case; beyond this the case is a frame storm (observation "storm")

    def transmit(self, node, frame):
        sim = self.sim
        name = node.name
        if self.dead:
            return
        if len(self.log) >= self.MAX_FRAMES:
            self.dead = True
            sim.observe("storm", "more than %d frames on the bus in one case" % self.MAX_FRAMES)
            return
        nk = self.k + 1
        sk = self.silence.get(name)
        if sk is not None and nk >= sk and (self.reconnect_at is None or sim.now < self.reconnect_at):
            self.silenced.add(name)
        if self.reconnect_at is not None and sim.now >= self.reconnect_at and self.silenced:
            self.silenced.clear()
            self.silence = {}
        if name in self.silenced:
            self.discarded.append((sim.now, name, frame))
            return
        self.k = nk
        entry = LogEntry(nk, sim.now, name, frame.can_id, frame.ext, frame.fd, frame.data)
        self.log.append(entry)
        for tap in self.taps:
            tap(entry)
        if nk not in self.drop:
            immediate = []
            for r in self.nodes:
                if r is node:
                    continue
                rn = r.name
                lat = self._lat(rn)
                fifo = self._fifo[rn]
                t = sim.now + lat
                if t < self._last_t[rn]:
                    t = self._last_t[rn]
                self._last_t[rn] = t
                fifo.append((t, nk, frame))
                if t <= sim.now and len(fifo) == 1 and rn not in self._delivering:
                    immediate.append(r)
                else:
                    sim.schedule(t, self._pumper(r))
            for r in immediate:
                self._pump(r)
        for inj in self.inject.pop(nk, ()):  # raw frames right after frame k
            src = _Raw(inj.get("node", "injector"))
            self.transmit(src, inj["frame"])

    def _pumper(self, r):
        return lambda: self._pump(r)

    def _pump(self, r):
        rn = r.name
        if rn in self._delivering:
            return          # the active delivery loop will pick the frame up
        fifo = self._fifo[rn]
        sim = self.sim
        self._delivering.add(rn)
        try:
            while fifo and fifo[0][0] <= sim.now:
                t, k, frame = fifo.popleft()
                sk = self.silence.get(rn)
                if sk is not None and k >= sk and (self.reconnect_at is None or sim.now < self.reconnect_at):
                    self.silenced.add(rn)
                if self.reconnect_at is not None and sim.now >= self.reconnect_at and self.silenced:
                    self.silenced.clear()
                    self.silence = {}
                if rn in self.silenced:
                    continue
                r.rx(frame)
        finally:
            self._delivering.discard(rn)

    def quiet_since(self):
        return self.log[-1].t if self.log else None


class _Raw:
    def __init__(self, name):
        self.name = name

    def rx(self, frame):
        pass


class RawNode:
    """A node that records what it receives and lets the harness transmit raw frames."""

    def __init__(self, bus, name="raw"):
        self.name = name
        self.bus = bus
        self.received = []
        self.on_rx = None
        bus.attach(self)

    def rx(self, frame):
        self.received.append((self.bus.sim.now, frame))
        if self.on_rx is not None:
            self.on_rx(frame)

    def send(self, can_id, data, ext=True, fd=False, remote=False, error=False):
        self.bus.transmit(self, mkframe(can_id, data, ext, fd, remote, error))
