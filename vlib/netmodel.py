"""Networks of real stacks exchanging generated messages; reference delivery model.

Used by C01 (J1939-21) and C02 (J1939-22).  DESIGN.md 5/C01, 5/C02.
"""
import collections
from hypothesis import strategies as st

from . import world as W
from . import simbus

EPS_GRID = [0.0, 1e-6, 1e-5, 1e-4, 1e-3]
WINDOWS = [1, 1, 2, 3, 5, 16, 254, 255]
CLASSES = ["pos", "pos", "ff", "zero", "arith", "tile"]
RESERVED_PF = {0xEA, 0xEB, 0xEC, 0xEE, 0x4D, 0x4E, 0x25}   # request, TP.DT, TP.CM, claim, FD.TP.CM/DT, multi-PG


def lengths_21():
    base = st.sampled_from(list(range(0, 10)) + [13, 14, 15, 16, 20, 21, 22] + list(range(1778, 1786)))
    qr = st.builds(lambda q, r: min(1785, 7 * q + r), st.integers(1, 255), st.integers(0, 6))
    small = st.builds(lambda q, r: 7 * q + r, st.integers(1, 12), st.integers(0, 6))
    return st.one_of(base, small, small, qr)


def lengths_22():
    q = st.sampled_from([1, 1, 2, 2, 3, 5, 17, 255, 333])
    qr = st.builds(lambda a, r: max(61, min(20000, 60 * a + r)), q, st.integers(0, 59))
    b = st.sampled_from([61, 62, 119, 120, 121, 180, 181, 19999, 20000])
    return st.one_of(qr, qr, qr, b)


def payload_spec(length, seg):
    return st.builds(lambda n, c, a, b, tile: {"n": n, "cls": c, "a": a, "b": b, "tile": tile, "seg": seg},
                     length, st.sampled_from(CLASSES), st.integers(0, 255), st.integers(1, 255),
                     st.lists(st.integers(0, 255), min_size=1, max_size=8))


def _lat_list(allow_zero):
    grid = simbus.LATENCY_GRID if allow_zero else simbus.LATENCY_GRID[1:]
    return st.lists(st.sampled_from(grid), min_size=1, max_size=4)


def net_strategy(dll, max_stacks=4, max_msgs=8, allow_zero_latency=True, min_len_multi=None):
    fd = dll == "j1939-22"
    length = lengths_22() if fd else lengths_21()
    seg = 60 if fd else 7

    @st.composite
    def build(draw):
        ns = draw(st.integers(2, max_stacks))
        naddr = draw(st.lists(st.integers(0, 253), min_size=2 * ns + 2, max_size=2 * ns + 2, unique=True))
        stacks = []
        ai = 0
        for i in range(ns):
            ncas = draw(st.sampled_from([1, 1, 2]))
            cas = []
            for _ in range(ncas):
                cas.append({"addr": naddr[ai]})
                ai += 1
            stacks.append({"max_cmdt": draw(st.one_of(st.sampled_from(WINDOWS), st.integers(1, 255))),
                           "cas": cas, "ecu_listener": draw(st.booleans()),
                           "lat": draw(_lat_list(allow_zero_latency)),
                           "tx_time": draw(st.sampled_from([0.0, 0.0, 0.0, 0.0001, 0.0005, 0.002])),
                           "slow_rx": draw(st.sampled_from([0.0, 0.0, 0.0, 0.001, 0.02])),
                           # time a frame write of a stack thread waits before the frame is on the bus (transmit queue, lock)
                           "tx_pre": draw(st.sampled_from([0.0, 0.0, 0.0, 0.0003, 0.001])),
                           # a cyclic application timer on the ECU (e.g. a DM1 cycle): the job thread has other deadlines too
                           "app_timer": draw(st.sampled_from([None, None, None, 0.4, 2.0]))})
        unowned = [a for a in naddr[ai:]]
        nm = draw(st.integers(1, max_msgs))
        msgs = []
        for _ in range(nm):
            si = draw(st.integers(0, ns - 1))
            ci = draw(st.integers(0, len(stacks[si]["cas"]) - 1))
            kind = draw(st.sampled_from(["p2p", "p2p", "p2p", "bc1", "bc2", "unowned"]))
            m = {"t": draw(st.sampled_from([0, 0, 0, 1, 2, 5, 10, 20, 50, 100])), "src": [si, ci], "kind": kind,
                 "dp": draw(st.integers(0, 1)), "prio": draw(st.integers(0, 7)),
                 "ctx": draw(st.sampled_from(["app", "app", "timer", "on_rx", "retry"])),
                 "pl": draw(payload_spec(length, seg))}
            if kind == "bc2":
                m["pf"] = draw(st.integers(240, 255))
                m["ps"] = draw(st.integers(0, 255))
            else:
                m["pf"] = draw(pdu1_format(m["dp"]))
                if kind == "p2p":
                    others = [(i, j) for i in range(ns) if i != si for j in range(len(stacks[i]["cas"]))]
                    m["dst"] = list(draw(st.sampled_from(others)))
                elif kind == "unowned":
                    m["dst_addr"] = draw(st.sampled_from(unowned))
            msgs.append(m)
        return limit_tx_time({"dll": dll, "stacks": stacks, "msgs": msgs,
                              "eps": draw(st.lists(st.sampled_from(EPS_GRID), min_size=1, max_size=3)),
                              "disp": draw(st.lists(st.sampled_from(EPS_GRID), min_size=1, max_size=3))})
    return build()


def limit_tx_time(params):
    """Soundness envelope: the job thread writes the whole cleared window of every session of its stack in one pass.  When
    each write blocks, the other sessions of that stack are not served meanwhile; beyond roughly T1 = 0.75 s a receiver of
    one of its broadcasts legitimately gives up.  That starvation is a design limit of the stack (DESIGN.md 8), not what
    C01/C02 judge: frame write times are kept so small that one pass never blocks longer than 0.1 s."""
    seg = 60 if params["dll"] == "j1939-22" else 7
    for i, stk in enumerate(params["stacks"]):
        burst = sum(min(255, -(-m["pl"]["n"] // seg)) for m in params["msgs"] if m["src"][0] == i and m["pl"]["n"] > (60 if seg == 60 else 8))
        if stk.get("tx_time", 0.0) * burst > 0.1:
            stk["tx_time"] = 0.0001 if burst * 0.0001 <= 0.1 else 0.0
        if stk.get("tx_pre", 0.0) * burst > 0.1:
            stk["tx_pre"] = 0.0
    return params


def pdu1_format(dp):
    """PDU1 formats an application may use: the protocol's own groups (request, TP, claim, FD.TP, multi-PG) are reserved on
    data page 0 only - on data page 1 the same PDU formats are ordinary parameter groups (favoured here)."""
    if dp == 0:
        return st.integers(0, 239).filter(lambda x: x not in RESERVED_PF)
    return st.one_of(st.integers(0, 239), st.integers(0, 239), st.sampled_from(sorted(RESERVED_PF)))


# ------------------------------------------------------------------ reference model
def dest_addr(params, m):
    if m["kind"] == "p2p":
        return params["stacks"][m["dst"][0]]["cas"][m["dst"][1]]["addr"]
    if m["kind"] == "unowned":
        return m["dst_addr"]
    return 255


def multi(params, m):
    return m["pl"]["n"] > (60 if params["dll"] == "j1939-22" else 8)


def packets(params, m):
    seg = 60 if params["dll"] == "j1939-22" else 7
    return -(-m["pl"]["n"] // seg)


def duration_bound(params, m, bam_dt):
    """Upper bound of the time the (SA,DA) pair / session stays busy."""
    if not multi(params, m):
        return 0.0
    maxlat = max(max(s["lat"]) for s in params["stacks"])
    slack = 2 * max(params["eps"]) + 2 * max(params["disp"]) + 0.0005 + 3 * max(s.get("tx_time", 0.0) + s.get("tx_pre", 0.0) for s in params["stacks"])
    slow = max(s.get("slow_rx", 0.0) for s in params["stacks"]) * (len(params["msgs"]) + 2) * 2
    n = packets(params, m)
    if m["kind"] in ("bc1", "bc2"):
        return (n + 2) * (bam_dt + slack) + 0.1 + slow
    if m["kind"] == "unowned":
        return 1.25 + slack + 0.1 + slow
    fd_extra = 0.1 if params["dll"] == "j1939-22" else 0.0
    return (n + 2) * (2 * maxlat + slack) + 0.2 + fd_extra + slow


def schedule(params, bam_dt, serialize_pairs=True):
    """Absolute submit offsets (s).  A multi-packet message whose (SA,DA) pair is still busy by the
    model is moved behind the earlier transfer (construction instead of rejection)."""
    free = {}
    prev = {}
    out = []
    seg = 60 if params["dll"] == "j1939-22" else 7
    for m in params["msgs"]:
        t = 0.05 + m["t"] / 1000.0
        if multi(params, m) and serialize_pairs:
            sa = params["stacks"][m["src"][0]]["cas"][m["src"][1]]["addr"]
            key = (sa, dest_addr(params, m))
            if key in free and t < free[key]:
                if m.get("ctx") == "retry" and prev[key][1] <= 10:
                    # the application does not wait: it retries send_pgn every 0.2 ms from shortly after the start of the
                    # (short) earlier transfer on this pair until the call is accepted - at the latest when the model's upper
                    # bound says the pair is free
                    m["_retry_until"] = free[key] + 0.1
                    # (not before the earlier call has certainly been made: a timer-context call is late by eps + dispatch)
                    t = max(t, prev[key][0] + max(params["eps"]) + max(params["disp"]) + 0.0001)
                    free[key] = free[key] + duration_bound(params, m, bam_dt) + 0.3
                    prev[key] = (free[key], 10 ** 6)
                    out.append(t)
                    continue
                t = free[key]
            free[key] = t + duration_bound(params, m, bam_dt) + 0.3
            prev[key] = (t, -(-m["pl"]["n"] // seg))
        out.append(t)
    return out


def expected_pgn(m):
    if m["kind"] == "bc2":
        return (m["dp"] << 16) | (m["pf"] << 8) | m["ps"]
    return (m["dp"] << 16) | (m["pf"] << 8)


def listeners_of(params):
    """listener name -> (stack index, kind, address or None)"""
    out = {}
    for i, s in enumerate(params["stacks"]):
        for j, ca in enumerate(s["cas"]):
            out["s%d.ca%d" % (i, j)] = (i, "ca", ca["addr"])
        if s["ecu_listener"]:
            out["s%d.ecu" % i] = (i, "ecu", None)
    return out


def expected_deliveries(params, accepted):
    """accepted: list of (msg index, payload bytes) for calls that returned True.
    Returns {listener: Counter((pgn, sa, bytes))} and the allowed EndOfMsgACK extras."""
    lis = listeners_of(params)
    exp = {l: collections.Counter() for l in lis}
    allowed = {l: collections.Counter() for l in lis}
    for mi, data in accepted:
        m = params["msgs"][mi]
        si, ci = m["src"]
        sa = params["stacks"][si]["cas"][ci]["addr"]
        pgn = expected_pgn(m)
        da = dest_addr(params, m)
        for l, (i, kind, addr) in lis.items():
            if i == si:
                continue
            if da == 255:
                exp[l][(pgn, sa, data)] += 1
            else:
                owner_stack = any(c["addr"] == da for c in params["stacks"][i]["cas"])
                if owner_stack and (kind == "ecu" or addr == da):
                    exp[l][(pgn, sa, data)] += 1
        if m["kind"] == "p2p" and multi(params, m):
            # EndOfMsgACK reported to the originator's listeners (allowed, not required)
            for l, (i, kind, addr) in lis.items():
                if i == si and (kind == "ecu" or addr == sa):
                    allowed[l][(pgn, da)] += 1
    return exp, allowed


def build_world(params, bam_dt=None, rts_cts_dt=None, **bus_kw):
    lat = {"s%d" % i: s["lat"] for i, s in enumerate(params["stacks"])}
    w = W.World(latency=lat, wake_eps=params["eps"], dispatch=params["disp"], **bus_kw)
    stacks = []
    for i, s in enumerate(params["stacks"]):
        stk = w.stack("s%d" % i, dll=params["dll"], max_cmdt=s["max_cmdt"], bam_dt=bam_dt, rts_cts_dt=rts_cts_dt,
                      tx_time=s.get("tx_time", 0.0), tx_pre=s.get("tx_pre", 0.0))
        for j, ca in enumerate(s["cas"]):
            stk.add_ca("ca%d" % j, 0x1000 + 16 * i + j, ca["addr"], bypass=True)
            stk.listen_ca("ca%d" % j, "s%d.ca%d" % (i, j), slow=s.get("slow_rx", 0.0) if j == 0 else 0.0)
        if s["ecu_listener"]:
            stk.listen_ecu("s%d.ecu" % i)
        if s.get("app_timer"):
            stk.ecu.add_timer(s["app_timer"], lambda cookie: True)
        stacks.append(stk)
    return w, stacks


def submit_all(w, stacks, params, times, results):
    """Schedule every send; results[mi] = (t, return value or exception repr, payload)."""
    for mi, (m, t) in enumerate(zip(params["msgs"], times)):
        def do(mi=mi, m=m):
            stk = stacks[m["src"][0]]
            ca = stk.cas["ca%d" % m["src"][1]]
            data = W.make_payload(m["pl"])
            ps = dest_addr(params, m) if m["kind"] != "bc2" else m["ps"]
            lst = list(data)
            try:
                r = ca.send_pgn(m["dp"], m["pf"], ps, m["prio"], lst)
            except Exception as e:   # noqa - judged by the oracle
                r = "EXC:%s:%s" % (type(e).__name__, str(e)[:120])
            results[mi] = (w.sim.now, r, bytes(data))
            # the list belongs to the application: it reuses it for the next message as soon as send_pgn has returned
            # (every second message: at once; else 3 ms later) - what was accepted is what it held at the call
            if mi % 2 == 0:
                lst[:] = [0xA5] * len(lst)
            else:
                w.sim.schedule(w.sim.now + 0.003, lambda: lst.__setitem__(slice(None), [0x5A] * len(lst)))

        def via_timer(mi=mi, m=m, do=do):
            stacks[m["src"][0]].ecu.add_timer(0.0, lambda cookie: (do(), False)[1])

        def via_rx(mi=mi, m=m, do=do):
            # the application sends from inside its receive callback (the next message delivered to its stack); if nothing
            # arrives within 0.5 s it sends from the application context instead.  Only single-frame messages use this
            # context (a multi-packet one would need a free address pair at an instant the model does not know).
            stk = stacks[m["src"][0]]
            fired = []

            def once(*a):
                if not fired:          # (the call itself may take time: a second trigger must not send it again)
                    fired.append(1)
                    do()
            stk.rx_hooks.append(once)
            w.sim.schedule(w.sim.now + 0.5, once)

        me = {}

        def via_retry(mi=mi, m=m, do=do, me=me):
            do()
            if results[mi][1] is False and w.sim.now - w.t0 < m["_retry_until"]:
                w.sim.schedule(w.sim.now + 0.0002, me["f"])
        me["f"] = via_retry

        if m["ctx"] == "on_rx" and not multi(params, m):
            w.at(t, via_rx)
        elif m.get("_retry_until") is not None:
            w.at(t, via_retry)
        else:
            w.at(t, via_timer if m["ctx"] == "timer" else do)


def judge_deliveries(params, stacks, results, V, tag):
    accepted = [(mi, r[2]) for mi, r in sorted(results.items()) if r[1] is True]
    exp, allowed = expected_deliveries(params, accepted)
    lis = listeners_of(params)
    ok = True
    for l, (i, kind, addr) in lis.items():
        got = collections.Counter()
        extras = []
        for d in stacks[i].deliveries:
            if d[1] != l:
                continue
            got[(d[3], d[4], d[5])] += 1
        missing = exp[l] - got
        extra = got - exp[l]
        # EndOfMsgACK images at the originator are allowed
        for (pgn, sa, data), n in list(extra.items()):
            if data is not None and len(data) == 8 and data[0] in (0x13,) and allowed[l].get((pgn, sa), 0) >= n:
                del extra[(pgn, sa, data)]
            elif (data is not None and len(data) == 12 and (data[0] & 0x0F) == 3
                  and allowed[l].get((pgn, sa), 0) >= n):
                del extra[(pgn, sa, data)]
        if missing:
            ok = False
            (pgn, sa, data), n = sorted(missing.items(), key=lambda x: (len(x[0][2]), x[0][0]))[0]
            near = sorted([g for g in got if g[1] == sa and g not in exp[l] and g[2] is not None
                           and not (len(g[2]) in (8, 12) and allowed[l].get((g[0], g[1]), 0))],
                          key=lambda g: (g[2] != data, g[0] != pgn))
            how = "missing"
            if near:
                g = near[0]
                if g[2] == data and g[0] != pgn:
                    how = "wrong-pgn"
                elif g[0] == pgn and g[2] != data:
                    how = "corrupt"
                else:
                    near = []
            cls = "multi" if len(data) > (60 if params["dll"] == "j1939-22" else 8) else "single"
            V("delivery-" + how, "listener %s: expected pgn=0x%05X sa=%d len=%d x%d, not received; %s" %
              (l, pgn, sa, len(data), n, ("received instead pgn=0x%05X len=%d" % (near[0][0], len(near[0][2])))
               if near else "nothing similar received"), "%s|%s" % (tag, cls))
        if extra and not missing:
            ok = False
            (pgn, sa, data), n = sorted(extra.items(), key=lambda x: (len(x[0][2] or b""), x[0][0]))[0]
            dup = (pgn, sa, data) in exp[l]
            V("delivery-duplicate" if dup else "delivery-invented",
              "listener %s: unexpected delivery pgn=0x%05X sa=%d len=%d x%d (%s)" %
              (l, pgn, sa, len(data or b""), n, "duplicate of an expected one" if dup else "never sent to it"),
              tag)
    return ok
