"""DM14 memory access: client and server MemoryAccess facades on two real J1939-21 stacks, with
application threads under the virtual-time kernel.  Shared by C17, C18, C19.  DESIGN.md 5/C17-C19.

The serving application follows the pattern of the pinned tests: the notify callback hands the
request to an application thread, which then calls respond().
"""
from . import world as W
from . import simkernel as sk
from . import simbus
from . import refcodec as R

SA_C, SA_S, SA_I = 0xF9, 0xD4, 0xA7        # client, server, intruder


def key_fn(spec):
    """spec = [a, b]: key = ((seed * a) ^ b) & 0xFFFF with odd a (a bijection on 16 bits)."""
    a, b = spec
    a |= 1
    return lambda seed: ((seed * a) ^ b) & 0xFFFF


def mem_bytes(data_seed, n):
    return [(data_seed * 31 + i * 17 + (i >> 3) * 5) & 0xFF for i in range(n)]


def values_for(data_seed, count, size):
    out = []
    for i in range(count):
        raw = bytes(((data_seed * 13 + i * 29 + k * 7) & 0xFF) for k in range(size))
        if (data_seed + i) % 7 == 0:
            raw = b"\xff" * size
        if (data_seed + i) % 11 == 0:
            raw = b"\x00" * size
        out.append(int.from_bytes(raw, "little"))
    return out


class Dm14World:
    def __init__(self, p, **bus_kw):
        j = W.load()
        self.j = j
        self.p = p
        lat = p.get("lat", {"C": [0.0005], "S": [0.0005]})
        self.w = W.World(latency=lat, wake_eps=p.get("eps", [0.0, 1e-5]), dispatch=p.get("disp", [0.0, 1e-5]), **bus_kw)
        w = self.w
        cm = p.get("max_cmdt", [1, 1])
        self.sa_c = p.get("sa_c", SA_C)      # requester / server / intruder addresses are scenario data
        self.sa_s = p.get("sa_s", SA_S)
        self.sa_i = p.get("sa_i", SA_I)
        # p["tx"] = [client, server]: time a frame write takes (in every context: a DM14/DM15 written from a receive callback
        # blocks the receive context of that stack for that long)
        tx = p.get("tx", [0.0, 0.0])
        self.cs = w.stack("C", dll="j1939-21", max_cmdt=cm[0], tx_time=tx[0], tx_all_contexts=True)
        self.ss = w.stack("S", dll="j1939-21", max_cmdt=cm[1], tx_time=tx[1], tx_all_contexts=True)
        self.cca = self.cs.add_ca("c", 0x100, self.sa_c)
        self.sca = self.ss.add_ca("s", 0x200, self.sa_s)
        self.client = j.MemoryAccess(self.cca)
        self.server = j.MemoryAccess(self.sca)
        self.proceed_calls = []      # (t, args)
        self.notify_calls = []
        self.respond_results = []    # (t, tx index or None, value / exception)
        self.served = []             # what the serving application did per request
        self.proceed_answer = [True]
        self.respond_plan = []       # consumed per notify: {"proceed": bool, "data": [...], "error":..., "edcp":...}
        self.seeds = list(p.get("seeds") or [0xA55A])
        self._seed_i = 0
        self.server.set_seed_generator(self._next_seed)
        self.sent_seeds = []
        if p.get("seed_key"):
            f = key_fn(p["seed_key"])
            self.server.set_seed_key_algorithm(f)
            self.client.set_seed_key_algorithm(f)
        if p.get("use_proceed", True):
            self.server.set_proceed(self._proceed)
        self.server.set_notify(self._notify)
        self._notify_q = sk.SimQueue()
        self._srv_thread = sk.spawn(self._server_app, name="server-app")
        self.results = []            # per transaction: dict
        self.client_thread = None
        self.initial_states = self.peek_states()      # "idle" = whatever the fresh objects report (robust against renames)

    # ---- serving application -------------------------------------------------
    def _next_seed(self):
        s = self.seeds[self._seed_i % len(self.seeds)]
        self._seed_i += 1
        self.sent_seeds.append((self.w.sim.now, s))
        return s

    def _proceed(self, command, address, pointer_type, length, object_count, key, source_addr, access_level, seed):
        self.proceed_calls.append((self.w.sim.now, {"command": command, "address": address, "pointer_type": pointer_type,
                                                    "length": length, "object_count": object_count, "key": key,
                                                    "sa": source_addr, "access_level": access_level, "seed": seed}))
        return self.proceed_answer[0]

    def _notify(self):
        self.notify_calls.append(self.w.sim.now)
        if self.respond_plan and self.respond_plan[0].get("inline"):
            # the serving application answers a read from inside the notification callback (the receive context of its stack)
            self._respond(self.respond_plan.pop(0))
            return
        self._notify_q.put(len(self.notify_calls))

    def _respond(self, plan):
        try:
            if plan.get("proceed", True):
                r = self.server.respond(True, list(plan.get("data", [])), 0xFFFF, 0xFF, plan.get("max_timeout", 3))
            else:
                r = self.server.respond(False, [], plan.get("error", 0x1), plan.get("edcp", 0x7), plan.get("max_timeout", 3))
            self.respond_results.append((self.w.sim.now, plan.get("tx"), r))
        except BaseException as e:  # noqa
            if isinstance(e, (sk.SimShutdown, sk.SpinDetected)):
                raise
            self.respond_results.append((self.w.sim.now, plan.get("tx"), "EXC:%s:%s" % (type(e).__name__, str(e)[:100])))

    def _server_app(self):
        while True:
            self._notify_q.get()
            plan = self.respond_plan.pop(0) if self.respond_plan else {"proceed": True, "data": []}
            delay = plan.get("delay", 0.0)
            if delay:
                sk.FAKE_TIME.sleep(delay)
            self._respond(plan)

    # ---- client application ----------------------------------------------------
    def run_client(self, txs, before=None, after=None):
        """Run the transactions sequentially in a client application thread."""
        def body():
            for ti, tx in enumerate(txs):
                if before is not None:
                    before(ti, tx)
                t0 = self.w.sim.now
                res = {"tx": ti, "t0": t0}
                try:
                    if tx["op"] == "read":
                        v = self.client.read(self.sa_s, tx["direct"], tx["addr"], tx["count"], tx["size"], tx.get("signed", False),
                                             tx.get("raw", False), tx.get("max_timeout", 3))
                        res["value"] = list(v) if v is not None else None
                    else:
                        v = self.client.write(self.sa_s, tx["direct"], tx["addr"], list(tx["values"]), tx["size"], tx.get("max_timeout", 3))
                        res["value"] = v
                except BaseException as e:  # noqa
                    if isinstance(e, (sk.SimShutdown, sk.SpinDetected)):
                        raise
                    res["exc"] = (type(e).__name__, str(e))
                res["t1"] = self.w.sim.now
                res["client_state"] = self.peek_states()
                self.results.append(res)
                if after is not None:
                    after(ti, tx, res)
                gap = tx.get("gap_after", 0.05)
                if gap:
                    sk.FAKE_TIME.sleep(gap)
        self.client_thread = sk.spawn(body, name="client-app")
        return self.client_thread

    def peek_states(self):
        def nm(x):
            return getattr(x, "name", None) if x is not None else None
        return {"client_facade": nm(getattr(self.client, "state", None)),
                "client_query": nm(getattr(getattr(self.client, "query", None), "state", None)),
                "server_facade": nm(getattr(self.server, "state", None)),
                "server_server": nm(getattr(getattr(self.server, "server", None), "state", None))}

    def close(self):
        self.w.close()
