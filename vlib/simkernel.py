"""Virtual-time kernel: the harness owns the clock and the thread schedule.

The stack under test is pure Python that uses ``time``, ``threading`` and ``queue``
through module globals.  ``install()`` rebinds those globals in every ``j1939.*`` module
to the fakes defined here.  Threads created by the stack become ``SimThread``s: real OS
threads that only run while they hold the *baton*; exactly one of {scheduler (the thread
that drives the case), one sim thread} executes at any time, so a run is a deterministic
function of (tree, scenario).

Design notes: DESIGN.md section 2.1 / 3.
"""
import sys
import os
import heapq
import math
import types
import ctypes
import collections
import threading as _rt
import time as _rtime
import queue as _rqueue
import secrets as _rsecrets


class SimShutdown(BaseException):
    """Raised inside a parked sim thread at teardown."""


class SpinDetected(BaseException):
    """Raised inside a sim thread that keeps reading the clock without ever blocking."""


class HarnessError(Exception):
    """The harness itself cannot continue (never a property violation)."""


class StormDetected(Exception):
    """Too many events executed without virtual time advancing."""


_SIM = None          # the active simulation (one per case)
MIN_QUANTUM = 1e-6   # a timed wait with 0 < timeout < 1 us still takes 1 us (see DESIGN 3.4)


def cur():
    if _SIM is None:
        raise HarnessError("no simulation active")
    return _SIM


class Sim:
    SPIN_READS = 50000
    STORM_EVENTS = 200000
    REAL_WAIT_S = 20.0      # real seconds the scheduler waits for a sim thread to yield

    def __init__(self, start=1000.0, wake_eps=(0.0,), dispatch=(0.0,), preempt=None,
                 trace=False, trace_prefix=None):
        self.now = float(start)
        self.heap = []
        self.seq = 0
        self.threads = []
        self.current = None
        self.sched_sem = _rt.Semaphore(0)
        self.wake_eps = list(wake_eps) or [0.0]
        self.dispatch = list(dispatch) or [0.0]
        self._eps_i = 0
        self._disp_i = 0
        self.obs = []              # (t, kind, detail)
        self.events_at_now = 0
        self.switches = 0
        self.trace = bool(trace) or bool(preempt)
        self.trace_prefix = trace_prefix
        self.trace_armed = False
        # preempt: {thread_index: {k: d}}
        self.preempt = {}
        for p in (preempt or []):
            self.preempt.setdefault(int(p["thread"]), {})[int(p["k"])] = float(p["d"])
        self.line_counts = {}
        self.closed = False

    # ------------------------------------------------------------------ events
    def schedule(self, t, fn):
        if t < self.now:
            t = self.now
        self.seq += 1
        heapq.heappush(self.heap, (t, self.seq, fn))

    def after(self, d, fn):
        self.schedule(self.now + d, fn)

    def observe(self, kind, detail=None):
        self.obs.append((self.now, kind, detail))

    def next_eps(self):
        v = self.wake_eps[self._eps_i % len(self.wake_eps)]
        self._eps_i += 1
        return v

    def next_dispatch(self):
        v = self.dispatch[self._disp_i % len(self.dispatch)]
        self._disp_i += 1
        return v

    def step(self, limit=None):
        """Run the next event whose time is <= limit.  Returns False if there is none."""
        if self.current is not None:
            raise HarnessError("step() called from a sim thread")
        if not self.heap:
            return False
        t = self.heap[0][0]
        if limit is not None and t > limit:
            return False
        t, _, fn = heapq.heappop(self.heap)
        if t > self.now:
            self.now = t
            self.events_at_now = 0
        self.events_at_now += 1
        if self.events_at_now > self.STORM_EVENTS:
            self.observe("storm", None)
            raise StormDetected("more than %d events at t=%r" % (self.STORM_EVENTS, self.now))
        fn()
        return True

    def run_until(self, T):
        while self.step(T):
            pass
        if T > self.now:
            self.now = T
            self.events_at_now = 0

    def run_for(self, d):
        self.run_until(self.now + d)

    def run_while(self, cond, limit):
        """Step while cond() holds and events remain before limit."""
        while cond() and self.step(limit):
            pass

    # ------------------------------------------------------------- thread switch
    def _switch_to(self, th):
        if self.current is not None:
            raise HarnessError("nested switch")
        self.current = th
        self.switches += 1
        th.go.release()
        self._wait_baton(th)
        self.current = None

    def _wait_baton(self, th):
        if self.sched_sem.acquire(timeout=self.REAL_WAIT_S):
            return
        # the thread computes without ever touching the kernel: inject SpinDetected
        self.observe("hang", th.name)
        tid = th._real.ident
        ctypes.pythonapi.PyThreadState_SetAsyncExc(ctypes.c_ulong(tid), ctypes.py_object(SpinDetected))
        if self.sched_sem.acquire(timeout=self.REAL_WAIT_S):
            return
        raise HarnessError("sim thread %s does not yield (real-time watchdog)" % th.name)

    def deadline_for(self, timeout):
        """Wake time of a timed wait: never early, possibly late (eps >= 0)."""
        if timeout is None:
            return None
        if timeout <= 0:
            return self.now
        d = timeout + self.next_eps()
        if d < MIN_QUANTUM:
            d = MIN_QUANTUM
        w = self.now + d
        # float rounding must not make the wait shorter than asked
        while w - self.now < timeout:
            w = math.nextafter(w, math.inf)
        return w

    def wait_for(self, cond, timeout, waitlist):
        """Block the caller until cond() or the timeout.  Returns cond()."""
        th = self.current
        if cond():
            return True
        deadline = self.deadline_for(timeout)
        if th is None:
            # scheduler context: run the simulation meanwhile
            while not cond():
                if deadline is not None and self.now >= deadline:
                    return False
                if not self.step(deadline):
                    if deadline is None:
                        raise HarnessError("deadlock: scheduler-context wait with nothing to run")
                    self.now = max(self.now, deadline)
                    return cond()
            return True
        while not cond():
            if deadline is not None and self.now >= deadline:
                return False
            waitlist.append(th)
            try:
                th.block(deadline)
            finally:
                if th in waitlist:
                    waitlist.remove(th)
        return True

    def signal(self, waitlist):
        for th in list(waitlist):
            self.schedule(self.now + self.next_dispatch(), th._waker(th.token))

    # ---------------------------------------------------------------- teardown
    def shutdown(self):
        """Unpark every remaining sim thread with SimShutdown; fail if one survives."""
        self.closed = True
        for _ in range(50):
            live = [t for t in self.threads if t.started and not t.done]
            if not live:
                break
            for th in live:
                th._pending_exc = SimShutdown()
                th.token += 1
                self._switch_to(th)
        live = [t for t in self.threads if t.started and not t.done]
        if live:
            raise HarnessError("sim threads survive teardown: %s" % [t.name for t in live])
        for th in self.threads:
            if th._real is not None:
                th._real.join(5.0)
        self.heap.clear()


# ---------------------------------------------------------------------- threads
class SimThread:
    _count = 0

    def __init__(self, group=None, target=None, name=None, args=(), kwargs=None, *, daemon=None):
        self.sim = cur()
        self._target = target
        self._args = args
        self._kwargs = kwargs or {}
        SimThread._count += 1
        self.name = name or ("SimThread-%d" % SimThread._count)
        self.daemon = bool(daemon)
        self.go = _rt.Semaphore(0)
        self.token = 0
        self.reads = 0
        self.started = False
        self.done = False
        self.exc = None
        self._pending_exc = None
        self._real = None
        self._joiners = []
        self.index = None
        self.ident = None
        self.wake_at = None

    # threading.Thread API ---------------------------------------------------
    def start(self):
        if self.started:
            raise RuntimeError("threads can only be started once")
        sim = self.sim
        if sim.closed:
            raise HarnessError("thread started after teardown")
        self.started = True
        self.index = len(sim.threads)
        sim.threads.append(self)
        sim.line_counts[self.index] = 0
        self._real = _rt.Thread(target=self._body, name="sim:" + self.name, daemon=True)
        self._real.start()
        self.ident = self._real.ident
        sim.schedule(sim.now, self._waker(self.token))

    def run(self):
        if self._target is not None:
            self._target(*self._args, **self._kwargs)

    def join(self, timeout=None):
        self.sim.wait_for(lambda: self.done, timeout, self._joiners)

    def is_alive(self):
        return self.started and not self.done

    isAlive = is_alive

    def setDaemon(self, v):
        self.daemon = v

    def getName(self):
        return self.name

    def setName(self, n):
        self.name = n

    # kernel side --------------------------------------------------------------
    def _waker(self, token):
        def wake():
            if self.done or token != self.token:
                return
            self.sim._switch_to(self)
        return wake

    def _body(self):
        self.go.acquire()
        sim = self.sim
        try:
            if self._pending_exc is not None:
                e, self._pending_exc = self._pending_exc, None
                raise e
            if sim.trace:
                sys.settrace(self._trace_global)
            self.run()
        except SimShutdown:
            pass
        except BaseException as e:  # noqa: B036 - a dead thread is an observation
            self.exc = e
            sim.observe("thread-died", (self.name, type(e).__name__, str(e)[:200]))
        finally:
            sys.settrace(None)
            self.done = True
            self.token += 1
            if self._joiners:
                sim.signal(self._joiners)
            sim.sched_sem.release()

    def block(self, wake_time):
        """Give the baton back; resume at wake_time (None = only when signalled)."""
        sim = self.sim
        if sim.current is not self:
            raise HarnessError("block() from a thread that does not hold the baton")
        self.token += 1
        self.reads = 0
        if wake_time is not None:
            sim.schedule(wake_time, self._waker(self.token))
        self.wake_at = wake_time          # (for harnesses that align an event with a thread's next timed wake-up)
        sim.sched_sem.release()
        self.go.acquire()
        self.wake_at = None
        if self._pending_exc is not None:
            e, self._pending_exc = self._pending_exc, None
            raise e

    # pre-emption ---------------------------------------------------------------
    def _trace_global(self, frame, event, arg):
        pre = self.sim.trace_prefix
        if pre is not None and frame.f_code.co_filename.startswith(pre):
            return self._trace_local
        return None

    def _trace_local(self, frame, event, arg):
        if event == "line":
            sim = self.sim
            if sim.trace_armed:
                k = sim.line_counts[self.index]
                sim.line_counts[self.index] = k + 1
                pts = sim.preempt.get(self.index)
                if pts is not None:
                    d = pts.get(k)
                    if d is not None:
                        sim.observe("preempt", (self.index, k, d, frame.f_code.co_name, frame.f_lineno))
                        self.block(sim.now + d)
        return self._trace_local


class _MainThread:
    name = "MainThread"
    daemon = False
    ident = 0

    def is_alive(self):
        return True

    def getName(self):
        return self.name


_MAIN = _MainThread()


# ------------------------------------------------------------- sync primitives
class SimEvent:
    def __init__(self):
        self._flag = False
        self._waiters = []

    def is_set(self):
        return self._flag

    isSet = is_set

    def set(self):
        self._flag = True
        if self._waiters:
            cur().signal(self._waiters)

    def clear(self):
        self._flag = False

    def wait(self, timeout=None):
        return cur().wait_for(lambda: self._flag, timeout, self._waiters)


class SimLock:
    def __init__(self):
        self._owner = None
        self._locked = False
        self._waiters = []

    def acquire(self, blocking=True, timeout=-1):
        sim = cur()
        if not self._locked:
            self._locked = True
            self._owner = sim.current
            return True
        if not blocking:
            return False
        ok = sim.wait_for(lambda: not self._locked, None if timeout is None or timeout < 0 else timeout,
                          self._waiters)
        if ok:
            self._locked = True
            self._owner = sim.current
        return ok

    def release(self):
        if not self._locked:
            raise RuntimeError("release unlocked lock")
        self._locked = False
        self._owner = None
        if self._waiters:
            cur().signal(self._waiters)

    def locked(self):
        return self._locked

    __enter__ = acquire

    def __exit__(self, *a):
        self.release()


class SimRLock:
    def __init__(self):
        self._owner = None
        self._count = 0
        self._waiters = []

    def acquire(self, blocking=True, timeout=-1):
        sim = cur()
        me = sim.current or _MAIN
        if self._count and self._owner is me:
            self._count += 1
            return True
        if self._count:
            if not blocking:
                return False
            ok = sim.wait_for(lambda: self._count == 0, None if timeout is None or timeout < 0 else timeout,
                              self._waiters)
            if not ok:
                return False
        self._owner = me
        self._count = 1
        return True

    def release(self):
        if not self._count:
            raise RuntimeError("cannot release un-acquired lock")
        self._count -= 1
        if self._count == 0:
            self._owner = None
            if self._waiters:
                cur().signal(self._waiters)

    __enter__ = acquire

    def __exit__(self, *a):
        self.release()

    def _is_owned(self):
        return self._count > 0 and self._owner is (cur().current or _MAIN)


class SimCondition:
    def __init__(self, lock=None):
        self._lock = lock if lock is not None else SimRLock()
        self._waiters = []
        self._gen = 0
        self.acquire = self._lock.acquire
        self.release = self._lock.release

    def __enter__(self):
        return self._lock.__enter__()

    def __exit__(self, *a):
        return self._lock.__exit__(*a)

    def wait(self, timeout=None):
        gen = self._gen
        self._lock.release()
        try:
            return cur().wait_for(lambda: self._gen != gen, timeout, self._waiters)
        finally:
            self._lock.acquire()

    def wait_for(self, predicate, timeout=None):
        sim = cur()
        end = None if timeout is None else sim.now + timeout
        r = predicate()
        while not r:
            rem = None if end is None else end - sim.now
            if rem is not None and rem <= 0:
                break
            self.wait(rem)
            r = predicate()
        return r

    def notify(self, n=1):
        self._gen += 1
        if self._waiters:
            cur().signal(self._waiters)

    def notify_all(self):
        self.notify()

    notifyAll = notify_all


class SimSemaphore:
    def __init__(self, value=1):
        self._value = value
        self._waiters = []

    def acquire(self, blocking=True, timeout=None):
        sim = cur()
        if self._value > 0:
            self._value -= 1
            return True
        if not blocking:
            return False
        ok = sim.wait_for(lambda: self._value > 0, timeout, self._waiters)
        if ok:
            self._value -= 1
        return ok

    def release(self, n=1):
        self._value += n
        if self._waiters:
            cur().signal(self._waiters)

    __enter__ = acquire

    def __exit__(self, *a):
        self.release()


class SimTimer(SimThread):
    def __init__(self, interval, function, args=None, kwargs=None):
        super().__init__()
        self.interval = interval
        self.function = function
        self.fargs = args or []
        self.fkwargs = kwargs or {}
        self.finished = SimEvent()

    def cancel(self):
        self.finished.set()

    def run(self):
        self.finished.wait(self.interval)
        if not self.finished.is_set():
            self.function(*self.fargs, **self.fkwargs)
        self.finished.set()


# ------------------------------------------------------------------------ queue
class SimEmpty(Exception):
    pass


class SimFull(Exception):
    pass


class SimQueue:
    def __init__(self, maxsize=0):
        self.maxsize = maxsize
        self._items = collections.deque()
        self._getters = []
        self._putters = []
        self._init_extra()

    def _init_extra(self):
        pass

    def _push(self, item):
        self._items.append(item)

    def _pop(self):
        return self._items.popleft()

    def qsize(self):
        return len(self._items)

    def empty(self):
        return not self._items

    def full(self):
        return 0 < self.maxsize <= len(self._items)

    def put(self, item, block=True, timeout=None):
        sim = cur()
        if block and timeout is not None and timeout < 0 and self.maxsize > 0:
            raise ValueError("'timeout' must be a non-negative number")
        if self.full():
            if not block:
                raise SimFull
            if not sim.wait_for(lambda: not self.full(), timeout, self._putters):
                raise SimFull
        self._push(item)
        if self._getters:
            sim.signal(self._getters)

    def put_nowait(self, item):
        return self.put(item, block=False)

    def get(self, block=True, timeout=None):
        sim = cur()
        if block and timeout is not None and timeout < 0:
            # like queue.Queue: checked before looking at the content
            raise ValueError("'timeout' must be a non-negative number")
        if not self._items:
            if not block:
                raise SimEmpty
            if not sim.wait_for(lambda: bool(self._items), timeout, self._getters):
                raise SimEmpty
        item = self._pop()
        if self._putters:
            sim.signal(self._putters)
        return item

    def get_nowait(self):
        return self.get(block=False)

    def task_done(self):
        pass

    def join(self):
        pass


class SimLifoQueue(SimQueue):
    def _pop(self):
        return self._items.pop()


class SimPriorityQueue(SimQueue):
    def _push(self, item):
        heapq.heappush(self._heapitems, item)
        self._items.append(None)

    def _init_extra(self):
        self._heapitems = []

    def _pop(self):
        self._items.pop()
        return heapq.heappop(self._heapitems)


# ----------------------------------------------------------------- fake modules
def _clock():
    sim = cur()
    th = sim.current
    if th is not None:
        th.reads += 1
        if th.reads > sim.SPIN_READS:
            th.reads = 0
            sim.observe("spin", th.name)
            raise SpinDetected("thread %r read the clock %d times without blocking" % (th.name, sim.SPIN_READS))
    return sim.now


def _sleep(d):
    sim = cur()
    th = sim.current
    if d < 0:
        raise ValueError("sleep length must be non-negative")      # like time.sleep
    w = sim.deadline_for(d)
    if th is None:
        sim.run_until(w)
    else:
        th.block(w)


def exact_sleep(d):
    """Harness-side wait of exactly d (no wake-up lateness, and it does not consume a value of the generated eps list): used for
    the modelled duration of a driver write, which is a parameter of the scenario, not a timed wait of the stack."""
    sim = cur()
    th = sim.current
    if d <= 0:
        return
    w = sim.now + d
    while w - sim.now < d:
        w = math.nextafter(w, math.inf)
    if th is None:
        sim.run_until(w)
    else:
        th.block(w)


def _current_thread():
    sim = cur()
    return sim.current or _MAIN


def _make_time():
    m = types.ModuleType("time")
    m.__dict__.update({k: v for k, v in _rtime.__dict__.items() if not k.startswith("__")})
    m.time = _clock
    m.monotonic = _clock
    m.perf_counter = _clock
    m.time_ns = lambda: int(_clock() * 1e9)
    m.monotonic_ns = lambda: int(_clock() * 1e9)
    m.perf_counter_ns = lambda: int(_clock() * 1e9)
    m.sleep = _sleep
    return m


def _make_threading():
    m = types.ModuleType("threading")
    m.__dict__.update({k: v for k, v in _rt.__dict__.items() if not k.startswith("__")})
    m.Thread = SimThread
    m.Event = SimEvent
    m.Lock = SimLock
    m.RLock = SimRLock
    m.Condition = SimCondition
    m.Semaphore = SimSemaphore
    m.BoundedSemaphore = SimSemaphore
    m.Timer = SimTimer
    m.current_thread = _current_thread
    m.currentThread = _current_thread
    m.get_ident = lambda: (_current_thread().ident or 0)
    m.main_thread = lambda: _MAIN
    return m


def _make_queue():
    m = types.ModuleType("queue")
    m.Queue = SimQueue
    m.SimpleQueue = SimQueue
    m.LifoQueue = SimLifoQueue
    m.PriorityQueue = SimPriorityQueue
    m.Empty = SimEmpty
    m.Full = SimFull
    return m


class _Secrets:
    """Deterministic stand-in for ``secrets`` (only matters if the harness forgot to set a
    seed generator; sequence restarts for every case)."""

    def __init__(self):
        self.state = 0x2545F491

    def _next(self):
        self.state = (self.state * 6364136223846793005 + 1442695040888963407) & ((1 << 64) - 1)
        return self.state >> 11

    def randbits(self, k):
        return self._next() & ((1 << k) - 1)

    def randbelow(self, n):
        return self._next() % n

    def token_bytes(self, n=32):
        return bytes(self.randbits(8) for _ in range(n))

    def choice(self, seq):
        return seq[self.randbelow(len(seq))]


FAKE_TIME = _make_time()
FAKE_THREADING = _make_threading()
FAKE_QUEUE = _make_queue()
FAKE_SECRETS = types.ModuleType("secrets")
_SECRETS = _Secrets()
for _n in ("randbits", "randbelow", "token_bytes", "choice"):
    setattr(FAKE_SECRETS, _n, (lambda n: (lambda *a, **k: getattr(_SECRETS, n)(*a, **k)))(_n))

_MODULE_MAP = None
_MEMBER_MAP = None


def _maps():
    global _MODULE_MAP, _MEMBER_MAP
    if _MODULE_MAP is None:
        _MODULE_MAP = {id(_rtime): FAKE_TIME, id(_rt): FAKE_THREADING, id(_rqueue): FAKE_QUEUE,
                       id(_rsecrets): FAKE_SECRETS}
        mm = {}
        for real, fake in ((_rtime, FAKE_TIME), (_rt, FAKE_THREADING), (_rqueue, FAKE_QUEUE),
                           (_rsecrets, FAKE_SECRETS)):
            for k, fv in fake.__dict__.items():
                if k.startswith("__"):
                    continue
                rv = real.__dict__.get(k)
                if rv is not None and rv is not fv and (callable(rv) or isinstance(rv, type)):
                    mm[id(rv)] = (rv, fv)
        _MEMBER_MAP = mm
    return _MODULE_MAP, _MEMBER_MAP


def install(prefixes=("j1939",)):
    """Rebind time/threading/queue/secrets (modules or members) in every loaded module whose
    name starts with one of ``prefixes``.  Goes through sys.modules (DESIGN 2.1)."""
    modmap, memmap = _maps()
    n = 0
    for name, mod in list(sys.modules.items()):
        if mod is None or not any(name == p or name.startswith(p + ".") for p in prefixes):
            continue
        d = getattr(mod, "__dict__", None)
        if d is None:
            continue
        for k, v in list(d.items()):
            f = modmap.get(id(v))
            if f is not None and isinstance(v, types.ModuleType):
                d[k] = f
                n += 1
                continue
            ent = memmap.get(id(v))
            if ent is not None and ent[0] is v:
                d[k] = ent[1]
                n += 1
    return n


def begin(**kw):
    """Start a fresh simulation (one per case)."""
    global _SIM
    if _SIM is not None and not _SIM.closed:
        try:
            _SIM.shutdown()
        except Exception:
            pass
    _SECRETS.state = 0x2545F491
    _SIM = Sim(**kw)
    return _SIM


def end():
    global _SIM
    sim = _SIM
    try:
        if sim is not None:
            sim.shutdown()
    finally:
        _SIM = None


def spawn(target, name=None, args=()):
    """Harness-owned application thread (for blocking API calls such as DM14 read/respond)."""
    th = SimThread(target=target, name=name, args=args)
    th.start()
    return th
