"""Independent reference peer for SAE J1939-21 / J1939-22 transport (DESIGN.md 2.3).

Plays originator or responder (RTS/CTS) and BAM sender/receiver as a bus node.  Every free
choice the standard leaves to a node comes from its configuration (scenario data).  It imports
nothing from j1939; frame layouts come from vlib/refcodec.py.
"""
from . import refcodec as R
from .simbus import mkframe


class RefPeer:
    def __init__(self, bus, name, sa, fd=False, grants=(255,), holds=(0,), reply_lat=(0.001,), hold_gap=0.1,
                 strict=True):
        self.bus = bus
        self.sim = bus.sim
        self.name = name
        self.sa = sa
        self.fd = fd
        self.grants = list(grants) or [255]
        self.holds = list(holds) or [0]
        self.reply_lat = list(reply_lat) or [0.001]
        self.hold_gap = hold_gap
        self._gi = self._hi = self._li = 0
        self.rx_sessions = {}       # key -> responder/BAM-receiver session
        self.tx_sessions = {}       # key -> originator session
        self.messages = []          # (t, src, dst, pgn, bytes, mode)  completely received from others
        self.errors = []            # (t, kind, msg)  format / protocol errors of the OTHER side
        self.events = []            # (t, what, detail)
        self.silent = False
        self.fates = []             # consumed in order, one per received RTS: {"f": "clean"|"silent"|"abort"|"ignore_dt"|"no_ack", "k": int}
        self.accept_rts = True
        self.respond_eom = True
        self.rereq = []             # grant indices (0-based, > 0) at which this responder asks for the previous window AGAIN
                                    # (as if those packets had arrived damaged): CTS "next packet" points back - legal
        bus.attach(self)

    # ------------------------------------------------------------- helpers
    def _next(self, lst, attr):
        i = getattr(self, attr)
        setattr(self, attr, i + 1)
        return lst[i % len(lst)]

    def _lat(self):
        return self._next(self.reply_lat, "_li")

    def _err(self, kind, msg):
        self.errors.append((self.sim.now, kind, msg))

    def send(self, prio, pf, ps, data, fd=None):
        if self.silent:
            return
        fd = self.fd if fd is None else fd
        self.bus.transmit(self, mkframe(R.mk_id(prio, 0, pf, ps, self.sa), data, True, fd))

    def send_later(self, delay, prio, pf, ps, data):
        self.sim.schedule(self.sim.now + delay, lambda: self.send(prio, pf, ps, data))

    # ----------------------------------------------------------------- rx
    def rx(self, frame):
        if self.silent or not frame.ext or frame.remote or frame.error:
            return
        f = R.id_fields(frame.can_id)
        if f["sa"] == self.sa:
            return                      # somebody spoofs our address: not ours to answer
        d = frame.data
        if self.fd:
            if f["pf"] == R.FD_CM_PF:
                self._rx_fd_cm(f, d)
            elif f["pf"] == R.FD_DT_PF:
                self._rx_fd_dt(f, d, frame)
        else:
            if f["pf"] == R.TP_CM_PF:
                self._rx_cm(f, d)
            elif f["pf"] == R.TP_DT_PF:
                self._rx_dt(f, d)

    # ======================================================= J1939-21 ========
    def _rx_cm(self, f, d):
        src, dst = f["sa"], f["ps"]
        if dst not in (self.sa, 255):
            return
        if len(d) != 8:
            self._err("cm-length", "TP.CM with %d data bytes" % len(d))
            return
        c = d[0]
        pgn = R.pgn_from_le(d[5:8])
        if c == R.RTS and dst == self.sa:
            size, packets, limit = d[1] | (d[2] << 8), d[3], d[4]
            if packets != R.tp_packets(size):
                self._err("rts-packets", "RTS size %d announces %d packets, expected %d" % (size, packets, R.tp_packets(size)))
            if not 9 <= size <= 1785:
                self._err("rts-size", "RTS size %d outside 9..1785" % size)
            if limit == 0:
                self._err("rts-limit", "RTS max packets per CTS = 0")
            if f["priority"] != f["priority"]:
                pass
            self.events.append((self.sim.now, "rts", (src, size, packets, limit, pgn)))
            fate = self.fates.pop(0) if self.fates else {"f": "clean"}
            if not self.accept_rts or fate["f"] == "silent":
                return
            s = {"mode": "rts", "src": src, "dst": dst, "size": size, "packets": packets, "limit": limit, "pgn": pgn,
                 "data": bytearray(), "next": 1, "window_end": 0, "holds_left": 0, "done": False, "fate": fate,
                 "grants_made": 0, "dt_seen": 0}
            self.rx_sessions[(src, dst)] = s
            self._grant(s)
        elif c == R.BAM and dst == 255:
            size, packets = d[1] | (d[2] << 8), d[3]
            if packets != R.tp_packets(size):
                self._err("bam-packets", "BAM size %d announces %d packets, expected %d" % (size, packets, R.tp_packets(size)))
            if d[4] != 0xFF:
                self._err("bam-reserved", "BAM byte 5 = 0x%02X, expected 0xFF" % d[4])
            self.rx_sessions[(src, 255)] = {"mode": "bam", "src": src, "dst": 255, "size": size, "packets": packets,
                                            "pgn": pgn, "data": bytearray(), "next": 1, "done": False,
                                            "t_last": self.sim.now, "gaps": []}
            self.events.append((self.sim.now, "bam", (src, size, packets, pgn)))
        elif c == R.CTS and dst == self.sa:
            s = self.tx_sessions.get((self.sa, src))
            n, nxt = d[1], d[2]
            self.events.append((self.sim.now, "cts", (src, n, nxt, pgn)))
            if s is None or s["done"]:
                self._err("cts-unexpected", "CTS from %d without an open session" % src)
                return
            if d[3] != 0xFF or d[4] != 0xFF:
                self._err("cts-reserved", "CTS reserved bytes %02X %02X, expected FF FF" % (d[3], d[4]))
            if pgn != s["pgn"]:
                self._err("cts-pgn", "CTS carries PGN 0x%X, session PGN 0x%X" % (pgn, s["pgn"]))
            s["cts"].append((self.sim.now, n, nxt))
            if n == 0:
                return
            if nxt != s["sent"] + 1:
                self._err("cts-next", "CTS next packet %d, first packet not yet received is %d" % (nxt, s["sent"] + 1))
            remaining = s["packets"] - s["sent"]
            if n > min(s["limit"], remaining):
                self._err("cts-overgrant", "CTS grants %d packets: RTS limit %d, remaining %d" % (n, s["limit"], remaining))
            self._send_window(s, nxt, min(n, remaining))
        elif c == R.EOM_ACK and dst == self.sa:
            s = self.tx_sessions.get((self.sa, src))
            self.events.append((self.sim.now, "eom_ack", (src, list(d))))
            if s is None:
                self._err("ack-unexpected", "EndOfMsgACK without session")
                return
            exp = R.tp_eom_ack(s["size"], s["packets"], s["pgn"])
            if list(d) != exp:
                self._err("ack-bytes", "EndOfMsgACK %s, expected %s" % (bytes(d).hex(), bytes(exp).hex()))
            if s["sent"] < s["packets"]:
                self._err("ack-early", "EndOfMsgACK after %d of %d packets" % (s["sent"], s["packets"]))
            s["done"] = True
            s["acked"] = self.sim.now
        elif c == R.ABORT and dst == self.sa:
            self.events.append((self.sim.now, "abort", (src, d[1], pgn)))
            # an abort names its connection by PGN: the two directions of a pair are distinct connections
            s = self.tx_sessions.get((self.sa, src))
            if s is not None and not s["done"] and s["pgn"] == pgn:
                s["done"] = True
                s["aborted"] = (self.sim.now, d[1])
            s = self.rx_sessions.get((src, self.sa))
            if s is not None and not s["done"] and s["pgn"] == pgn:
                s["done"] = True
                s["aborted"] = (self.sim.now, d[1])
        elif c not in (R.RTS, R.CTS, R.EOM_ACK, R.BAM, R.ABORT):
            self._err("cm-control", "TP.CM control byte %d" % c)

    def _lost_dt(self, s, fate):
        """A data frame did not reach this responder.  With fate["late"] it behaves like a conforming responder whose
        receive time-out (T1/T2, with its own timer tolerance) then expires: it sends a Connection Abort (reason 3)."""
        first = not s.get("lost")
        s["lost"] = True
        if first and fate.get("late"):
            def give_up():
                if s["done"] or self.silent:
                    return
                s["done"] = True
                s["aborted_by_me"] = self.sim.now
                if self.fd:
                    self.send(7, R.FD_CM_PF, s["src"], R.fd_abort(s["session"], 3, s["pgn"]))
                else:
                    self.send(7, R.TP_CM_PF, s["src"], R.tp_abort(3, s["pgn"]))
            self.sim.schedule(self.sim.now + fate["late"], give_up)

    def _grant(self, s):
        """Responder: decide the next CTS (holds first, then a window)."""
        holds = self._next(self.holds, "_hi")
        s["holds_left"] = holds
        self._grant_step(s, self._lat())

    def _grant_step(self, s, delay):
        def go():
            if s["done"] or self.silent:
                return
            remaining = s["packets"] - (s["next"] - 1)
            if s["holds_left"] > 0:
                s["holds_left"] -= 1
                self._send_cts(s, 0, s["next"])
                self.sim.schedule(self.sim.now + self.hold_gap, go)
                return
            fate = s.get("fate") or {}
            if fate.get("f") == "abort" and s.get("grants_made", 0) >= fate.get("k", 0):
                s["done"] = True
                s["aborted_by_me"] = self.sim.now
                if self.fd:
                    self.send(7, R.FD_CM_PF, s["src"], R.fd_abort(s["session"], 1, s["pgn"]))
                else:
                    self.send(7, R.TP_CM_PF, s["src"], R.tp_abort(1, s["pgn"]))
                return
            if s.get("grants_made", 0) in self.rereq and s.get("grants_made", 0) not in s.setdefault("rereq_done", set()) \
                    and s.get("wstart") is not None and s["next"] > s["wstart"]:
                # retransmission request: forget the last window and ask for it again
                s["rereq_done"].add(s["grants_made"])
                segb = 60 if self.fd else 7
                s["data"] = s["data"][:(s["wstart"] - 1) * segb]
                s["next"] = s["wstart"]
                remaining = s["packets"] - (s["next"] - 1)
                s["rerequested"] = s.get("rerequested", 0) + 1
            s["grants_made"] = s.get("grants_made", 0) + 1
            s["wstart"] = s["next"]
            g = self._next(self.grants, "_gi")
            lim = s["limit"] if s["limit"] else 255
            n = max(1, min(g, lim, remaining))
            s["window_end"] = s["next"] + n - 1
            s["granted"] = n
            self._send_cts(s, n, s["next"])
        self.sim.schedule(self.sim.now + delay, go)

    def _send_cts(self, s, n, nxt):
        s.setdefault("cts_sent", []).append((self.sim.now, n, nxt))
        if self.fd:
            self.send(7, R.FD_CM_PF, s["src"], R.fd_cts(s["session"], nxt, n, s["pgn"]))
        else:
            self.send(7, R.TP_CM_PF, s["src"], R.tp_cts(n, nxt, s["pgn"]))

    def _rx_dt(self, f, d):
        src, dst = f["sa"], f["ps"]
        s = self.rx_sessions.get((src, dst))
        if s is None or s["done"]:
            return
        if len(d) != 8:
            self._err("dt-length", "TP.DT with %d data bytes" % len(d))
            return
        seq = d[0]
        s["dt_seen"] = s.get("dt_seen", 0) + 1
        fate = s.get("fate") or {}
        if fate.get("f") == "ignore_dt" and s["dt_seen"] >= fate.get("k", 1):
            self._lost_dt(s, fate)
            return
        if seq != s["next"]:
            self._err("dt-sequence", "TP.DT sequence %d, expected %d" % (seq, s["next"]))
            return
        if s["mode"] == "rts" and seq > s["window_end"]:
            self._err("dt-not-cleared", "TP.DT %d beyond the granted window (end %d)" % (seq, s["window_end"]))
        if s["mode"] == "bam":
            s["gaps"].append(self.sim.now - s["t_last"])
            s["t_last"] = self.sim.now
        s["data"] += bytes(d[1:8])
        s["next"] += 1
        if seq == s["packets"]:
            pad = s["data"][s["size"]:]
            if any(b != 0xFF for b in pad):
                self._err("dt-padding", "last TP.DT padded with %s, expected 0xFF" % bytes(pad).hex())
            msg = bytes(s["data"][:s["size"]])
            s["done"] = True
            self.messages.append((self.sim.now, src, dst, s["pgn"], msg, s["mode"]))
            if s["mode"] == "rts" and self.respond_eom and (s.get("fate") or {}).get("f") != "no_ack":
                self.send_later(self._lat(), 7, R.TP_CM_PF, src, R.tp_eom_ack(s["size"], s["packets"], s["pgn"]))
        elif s["mode"] == "rts" and seq == s["window_end"]:
            self._grant(s)

    # originator side ------------------------------------------------------------
    def originate_rts(self, da, pgn, data, limit=255, dt_gap=0.001, session=0, prio=7):
        data = bytes(data)
        if self.fd:
            seg = R.fd_segments(len(data))
            s = {"mode": "rts", "da": da, "pgn": pgn, "data": data, "size": len(data), "packets": seg, "limit": limit,
                 "dt_gap": dt_gap, "sent": 0, "cts": [], "done": False, "session": session, "t0": self.sim.now}
            self.tx_sessions[(session, self.sa, da)] = s
            self.send(prio, R.FD_CM_PF, da, R.fd_rts(session, len(data), seg, limit, pgn))
        else:
            n = R.tp_packets(len(data))
            s = {"mode": "rts", "da": da, "pgn": pgn, "data": data, "size": len(data), "packets": n, "limit": limit,
                 "dt_gap": dt_gap, "sent": 0, "cts": [], "done": False, "t0": self.sim.now}
            self.tx_sessions[(self.sa, da)] = s
            self.send(prio, R.TP_CM_PF, da, R.tp_rts(len(data), n, limit, pgn))
        return s

    def abort_own(self, s, after):
        """Originator: give the transfer s up `after` seconds from now with a Connection Abort naming its PGN."""
        def go():
            if s["done"] or self.silent:
                return
            s["done"] = True
            s["aborted_by_me"] = self.sim.now
            if self.fd:
                self.send(7, R.FD_CM_PF, s["da"], R.fd_abort(s["session"], 250, s["pgn"]))
            else:
                self.send(7, R.TP_CM_PF, s["da"], R.tp_abort(250, s["pgn"]))
        self.sim.schedule(self.sim.now + after, go)

    def _send_window(self, s, first, n):
        """Send DT first..first+n-1 spaced by dt_gap (first one after dt_gap too)."""
        def one(i):
            def go():
                if s["done"] or self.silent:
                    return
                if s.get("stop_after") is not None and i > s["stop_after"]:
                    s["done"] = True
                    s["abandoned"] = self.sim.now
                    return
                if s.get("hold_last") and i == s["packets"] and not self.fd and not s.get("released"):
                    s["held"] = ("dt", i)           # the last data packet is held back until release()
                    return
                s["sent"] = max(s["sent"], i)       # state first: the reply may be processed inside send()
                self._send_dt(s, i)
                if i < first + n - 1:
                    self.sim.schedule(self.sim.now + s["dt_gap"], one(i + 1))
                elif self.fd and i == s["packets"]:
                    if s.get("hold_last") and not s.get("released"):
                        s["held"] = ("eoms", i)     # the end-of-message status is held back until release()
                        return
                    s["eoms"] = self.sim.now
                    self.send(7, R.FD_CM_PF, s["da"], R.fd_eoms(s["session"], s["size"], s["packets"], s["pgn"]))
            return go
        self.sim.schedule(self.sim.now + s["dt_gap"], one(first))

    def release(self, s):
        """Send the frame an originator session with hold_last kept back (a frame that was 'in flight' - e.g. crossing the
        responder's time-out abort on the bus)."""
        held = s.pop("held", None)
        s["released"] = True
        if held is None or self.silent:
            return
        if held[0] == "dt":
            s["sent"] = max(s["sent"], held[1])
            self._send_dt(s, held[1])
        else:
            s["eoms"] = self.sim.now
            self.send(7, R.FD_CM_PF, s["da"], R.fd_eoms(s["session"], s["size"], s["packets"], s["pgn"]))

    def _send_dt(self, s, i):
        if self.fd:
            chunk = s["data"][(i - 1) * 60:i * 60]
            self.send(7, R.FD_DT_PF, s["da"], R.fd_dt(s["session"], i, chunk))
        else:
            chunk = s["data"][(i - 1) * 7:i * 7]
            self.send(7, R.TP_DT_PF, s["da"], R.tp_dt(i, chunk))

    def originate_bam(self, pgn, data, gap=0.05, session=0, prio=7):
        data = bytes(data)
        if self.fd:
            n = R.fd_segments(len(data))
            s = {"mode": "bam", "da": 255, "pgn": pgn, "data": data, "size": len(data), "packets": n, "dt_gap": gap,
                 "sent": 0, "done": False, "session": session}
            self.tx_sessions[("bam", session, self.sa)] = s
            self.send(prio, R.FD_CM_PF, 255, R.fd_bam(session, len(data), n, pgn))
        else:
            n = R.tp_packets(len(data))
            s = {"mode": "bam", "da": 255, "pgn": pgn, "data": data, "size": len(data), "packets": n, "dt_gap": gap,
                 "sent": 0, "done": False}
            self.tx_sessions[("bam", self.sa)] = s
            self.send(prio, R.TP_CM_PF, 255, R.tp_bam(len(data), n, pgn))

        def one(i):
            def go():
                if self.silent:
                    return
                if s.get("stop_after") is not None and i > s["stop_after"]:
                    s["done"] = True
                    s["abandoned"] = self.sim.now
                    return
                self._send_dt(s, i)
                s["sent"] = i
                if i < n:
                    self.sim.schedule(self.sim.now + gap, one(i + 1))
                else:
                    if self.fd:
                        self.sim.schedule(self.sim.now + gap, lambda: self.send(
                            7, R.FD_CM_PF, 255, R.fd_eoms(session, len(data), n, pgn)))
                    s["done"] = True
            return go
        self.sim.schedule(self.sim.now + gap, one(1))
        return s

    # ======================================================= J1939-22 ========
    def _rx_fd_cm(self, f, d):
        src, dst = f["sa"], f["ps"]
        if dst not in (self.sa, 255):
            return
        if len(d) != 12:
            self._err("cm-length", "FD.TP.CM with %d data bytes" % len(d))
            return
        c, sess = d[0] & 0xF, d[0] >> 4
        f1, f2 = R.from_le24(d[1:4]), R.from_le24(d[4:7])
        b7, b8 = d[7], d[8]
        pgn = R.pgn_from_le(d[9:12])
        if c == R.FD_RTS and dst == self.sa:
            size, segs, limit = f1, f2, b7
            if segs != R.fd_segments(size):
                self._err("rts-packets", "FD RTS size %d announces %d segments, expected %d" % (size, segs, R.fd_segments(size)))
            if limit == 0:
                self._err("rts-limit", "FD RTS max segments per CTS = 0")
            self.events.append((self.sim.now, "rts", (src, size, segs, limit, pgn, sess)))
            fate = self.fates.pop(0) if self.fates else {"f": "clean"}
            if not self.accept_rts or fate["f"] == "silent":
                return
            s = {"mode": "rts", "src": src, "dst": dst, "size": size, "packets": segs, "limit": limit, "pgn": pgn,
                 "data": bytearray(), "next": 1, "window_end": 0, "holds_left": 0, "done": False, "session": sess,
                 "complete": False, "fate": fate, "grants_made": 0, "dt_seen": 0}
            self.rx_sessions[(sess, src, dst)] = s
            self._grant(s)
        elif c == R.FD_BAM and dst == 255:
            size, segs = f1, f2
            if segs != R.fd_segments(size):
                self._err("bam-packets", "FD BAM size %d announces %d segments, expected %d" % (size, segs, R.fd_segments(size)))
            self.rx_sessions[(sess, src, 255)] = {"mode": "bam", "src": src, "dst": 255, "size": size, "packets": segs,
                                                  "pgn": pgn, "data": bytearray(), "next": 1, "done": False,
                                                  "session": sess, "complete": False, "t_last": self.sim.now, "gaps": []}
            self.events.append((self.sim.now, "bam", (src, size, segs, pgn, sess)))
        elif c == R.FD_EOMS:
            s = self.rx_sessions.get((sess, src, dst))
            self.events.append((self.sim.now, "eoms", (src, f1, f2, pgn, sess)))
            if s is None or s["done"]:
                return
            if f1 != s["size"] or f2 != s["packets"]:
                self._err("eoms-fields", "EOMS size/segments %d/%d, session announced %d/%d" % (f1, f2, s["size"], s["packets"]))
            if pgn != s["pgn"]:
                self._err("eoms-pgn", "EOMS PGN 0x%X, session PGN 0x%X" % (pgn, s["pgn"]))
            if not s["complete"] and s.get("lost"):
                # a segment was (deliberately) lost: a conforming responder rejects the incomplete message at EOMS
                s["done"] = True
                s["aborted_by_me"] = self.sim.now
                if s["mode"] == "rts":
                    self.send_later(self._lat(), 7, R.FD_CM_PF, src, R.fd_abort(sess, 2, s["pgn"]))
                return
            if not s["complete"]:
                self._err("eoms-early", "EOMS before all %d segments were received (next expected %d)" % (s["packets"], s["next"]))
                s["done"] = True
                return
            s["done"] = True
            self.messages.append((self.sim.now, src, dst, s["pgn"], bytes(s["data"][:s["size"]]), s["mode"]))
            if s["mode"] == "rts" and self.respond_eom and (s.get("fate") or {}).get("f") != "no_ack":
                self.send_later(self._lat(), 7, R.FD_CM_PF, src, R.fd_eoma(sess, s["size"], s["packets"], s["pgn"]))
        elif c == R.FD_CTS and dst == self.sa:
            s = self.tx_sessions.get((sess, self.sa, src))
            nxt, n = f2, b7
            self.events.append((self.sim.now, "cts", (src, n, nxt, pgn, sess)))
            if s is None or s["done"]:
                self._err("cts-unexpected", "FD CTS from %d session %d without an open session" % (src, sess))
                return
            if pgn != s["pgn"]:
                self._err("cts-pgn", "CTS carries PGN 0x%X, session PGN 0x%X" % (pgn, s["pgn"]))
            s["cts"].append((self.sim.now, n, nxt))
            if n == 0:
                return
            if nxt != s["sent"] + 1:
                self._err("cts-next", "CTS next segment %d, first segment not yet received is %d" % (nxt, s["sent"] + 1))
            remaining = s["packets"] - s["sent"]
            if n > min(s["limit"], remaining):
                self._err("cts-overgrant", "CTS grants %d segments: RTS limit %d, remaining %d" % (n, s["limit"], remaining))
            self._send_window(s, nxt, min(n, remaining))
        elif c == R.FD_EOMA and dst == self.sa:
            s = self.tx_sessions.get((sess, self.sa, src))
            self.events.append((self.sim.now, "eom_ack", (src, list(d))))
            if s is None:
                self._err("ack-unexpected", "EOMA without session")
                return
            exp = R.fd_eoma(sess, s["size"], s["packets"], s["pgn"])
            if list(d) != exp:
                self._err("ack-bytes", "EOMA %s, expected %s" % (bytes(d).hex(), bytes(exp).hex()))
            if "eoms" not in s:
                self._err("ack-early", "EOMA before EOMS was sent")
            s["done"] = True
            s["acked"] = self.sim.now
        elif c == R.FD_ABORT and dst == self.sa:
            self.events.append((self.sim.now, "abort", (src, b8, pgn, sess)))
            s = self.tx_sessions.get((sess, self.sa, src))
            if s is not None and not s["done"] and s["pgn"] == pgn:
                s["done"] = True
                s["aborted"] = (self.sim.now, b8)
            s = self.rx_sessions.get((sess, src, self.sa))
            if s is not None and not s["done"] and s["pgn"] == pgn:
                s["done"] = True
                s["aborted"] = (self.sim.now, b8)
        elif c not in (R.FD_RTS, R.FD_CTS, R.FD_EOMS, R.FD_EOMA, R.FD_BAM, R.FD_ABORT):
            self._err("cm-control", "FD.TP.CM control %d" % c)

    def _rx_fd_dt(self, f, d, frame):
        src, dst = f["sa"], f["ps"]
        if len(d) < 5:
            self._err("dt-length", "FD.TP.DT with %d bytes" % len(d))
            return
        sess = d[0] >> 4
        s = self.rx_sessions.get((sess, src, dst))
        if s is None or s["done"] or s["complete"]:
            return
        if len(d) not in R.FD_LEGAL:
            self._err("dt-illegal-length", "FD.TP.DT frame length %d is not a CAN FD length" % len(d))
        if (d[0] & 0xF) != 0:
            self._err("dt-dtfi", "DTFI %d" % (d[0] & 0xF))
        seg = R.from_le24(d[1:4])
        s["dt_seen"] = s.get("dt_seen", 0) + 1
        fate = s.get("fate") or {}
        if fate.get("f") == "ignore_dt" and s["dt_seen"] >= fate.get("k", 1):
            self._lost_dt(s, fate)
            return
        if seg != s["next"]:
            self._err("dt-sequence", "FD.TP.DT segment %d, expected %d" % (seg, s["next"]))
            return
        if s["mode"] == "rts" and seg > s["window_end"]:
            self._err("dt-not-cleared", "FD.TP.DT %d beyond the granted window (end %d)" % (seg, s["window_end"]))
        if s["mode"] == "bam":
            s["gaps"].append(self.sim.now - s["t_last"])
            s["t_last"] = self.sim.now
        want = 60 if seg < s["packets"] else s["size"] - 60 * (s["packets"] - 1)
        payload = d[4:]
        if len(payload) < want:
            self._err("dt-short", "segment %d carries %d bytes, %d expected" % (seg, len(payload), want))
        s["data"] += bytes(payload[:want])
        s["next"] += 1
        if seg == s["packets"]:
            s["complete"] = True
        elif s["mode"] == "rts" and seg == s["window_end"]:
            self._grant(s)
