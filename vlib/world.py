"""World: real ElectronicControlUnits on a simulated bus under the virtual-time kernel.

DESIGN.md section 2.4.  Only public integration points of the stack are used:
``ElectronicControlUnit(send_message=...)``, ``MessageListener(ecu).on_message_received``,
``add_ca``, ``subscribe`` ... ; private attributes are read only through ``peek_*`` helpers
that return None when the attribute does not exist (a refactor must not break a check).
"""
import os
import sys
import logging

from . import simkernel as sk
from . import simbus

HERE = os.path.dirname(os.path.abspath(__file__))
VERIF = os.path.dirname(HERE)
REPO = os.path.abspath(os.environ.get("VERIF_REPO", "/repo"))

_j1939 = None
_can = None
_ecu_mod = None


class _Capture(logging.Handler):
    def __init__(self):
        super().__init__(level=logging.ERROR)
        self.records = []

    def emit(self, record):
        try:
            msg = record.getMessage()
        except Exception:
            msg = str(record.msg)
        self.records.append((record.name, record.levelname, msg))


CAPTURE = _Capture()


def _quiet_print(*a, **k):
    pass


def load():
    """Import the stack from the tree under test and virtualise it."""
    global _j1939, _can, _ecu_mod
    if _j1939 is not None:
        return _j1939
    if sys.path[0] != REPO:
        sys.path.insert(0, REPO)
    logging.raiseExceptions = False
    import can
    import j1939
    path = os.path.abspath(os.path.dirname(j1939.__file__))
    if not path.startswith(REPO):
        raise sk.HarnessError("j1939 imported from %s, expected under %s" % (path, REPO))
    import j1939.electronic_control_unit as ecu_mod
    lg = logging.getLogger("j1939")
    lg.setLevel(logging.ERROR)
    lg.propagate = False
    lg.addHandler(CAPTURE)
    sk.install(("j1939",))
    for name, mod in list(sys.modules.items()):
        if mod is not None and (name == "j1939" or name.startswith("j1939.")):
            mod.__dict__["print"] = _quiet_print      # the stack prints diagnostics to stdout
    _j1939, _can, _ecu_mod = j1939, can, ecu_mod
    return j1939


def j1939_dir():
    return os.path.join(REPO, "j1939") + os.sep


def make_payload(spec):
    """spec = {"n": length, "cls": "pos"|"ff"|"zero"|"arith"|"tile", "a":..,"b":..,"tile":[..]}"""
    n = spec["n"]
    c = spec.get("cls", "pos")
    if c == "ff":
        return [0xFF] * n
    if c == "zero":
        return [0] * n
    if c == "arith":
        a, b = spec.get("a", 1), spec.get("b", 3)
        return [(a + b * i) & 0xFF for i in range(n)]
    if c == "tile":
        tile = spec.get("tile") or [0xA5]
        return [tile[i % len(tile)] for i in range(n)]
    # position coded: byte i carries (packet index, offset) so that mixing is visible
    seg = spec.get("seg", 7)
    a = spec.get("a", 0)
    return [((i // seg) * 16 + (i % seg) + a) & 0xFF for i in range(n)]


class Stack:
    """One real ECU attached to the simulated bus."""

    def __init__(self, world, name, dll="j1939-21", max_cmdt=1, rts_cts_dt=None, bam_dt=None, tx_time=0.0, tx_pre=0.0,
                 tx_all_contexts=False):
        j = load()
        self.world = world
        self.name = name
        self.dll = dll
        self.tx_time = tx_time        # virtual time a send call made by a stack THREAD takes (driver write); 0 = instantaneous
        self.tx_pre = tx_pre          # virtual time such a call waits BEFORE the frame is on the bus (transmit queue / driver lock)
        # True: send calls made in the receive context (from callbacks) and by the application take that time as well - the
        # receive context of this stack is then blocked meanwhile (further frames for it queue up), everything else goes on
        self.tx_all_contexts = tx_all_contexts
        self._prequeue = []           # (time at which it reaches the bus, identifier) of frames waiting in tx_pre
        self._pre_i = 0
        self.rx_hooks = []            # callables(listener name) run inside subscriber callbacks (application reacting to a message)
        self.deliveries = []      # (t, listener, prio, pgn, sa, bytes)
        self.requests = []        # (t, ca_name, src, dest, pgn)
        self.swallowed = []       # exceptions contained by MessageListener (via log capture)
        self.notify_exc = []
        self.cas = {}
        nthreads = len(world.sim.threads)
        self.ecu = j.ElectronicControlUnit(data_link_layer=dll, max_cmdt_packets=max_cmdt,
                                           minimum_tp_rts_cts_dt_interval=rts_cts_dt,
                                           minimum_tp_bam_dt_interval=bam_dt,
                                           send_message=self._send)
        new = world.sim.threads[nthreads:]
        if not new:
            raise sk.HarnessError("harness cannot virtualise this tree: ECU started no sim thread")
        self.threads = new
        self.listener = _ecu_mod.MessageListener(self.ecu)
        self.sent = []
        self.received = []        # (t, frame) handed to the stack's listener
        world.bus.attach(self)

    # bus side ------------------------------------------------------------------
    def _send(self, can_id, extended_id, data, fd_format=False):
        f = simbus.mkframe(can_id, list(data), ext=extended_id, fd=fd_format)
        sim = self.world.sim
        pre = self.tx_pre
        if isinstance(pre, (list, tuple)):
            # (a list is used cyclically, one value per blocking-capable write: the transmit queue is not equally full every time)
            if sim.current is not None or self.tx_all_contexts:
                pre = pre[self._pre_i % len(pre)] if pre else 0.0
                self._pre_i += 1
            else:
                pre = 0.0
        if pre and (sim.current is not None or self.tx_all_contexts):
            # the frame waits in the node's transmit path; a frame written meanwhile by another context of the same node may
            # overtake it only if it wins arbitration (lower identifier) - otherwise it queues behind it
            item = (sim.now + pre, can_id)
            self._prequeue.append(item)
            try:
                sk.exact_sleep(pre)
            finally:
                self._prequeue.remove(item)
        elif self._prequeue:
            ahead = [t for (t, cid) in self._prequeue if cid <= can_id]
            if ahead and max(ahead) >= sim.now:
                # (also when it is released at this very instant: written later means on the bus later)
                sk.exact_sleep(max(ahead) - sim.now + 1e-6)     # strictly behind it
        self.sent.append((self.world.sim.now, f))
        self.world.bus.transmit(self, f)
        if self.tx_time and (self.world.sim.current is not None or self.tx_all_contexts):
            # the frame is on the bus; the calling thread stays inside the driver call a little longer, so a reply can be
            # handled by the receive path before the send call has returned (threaded counterpart of latency 0)
            sk.exact_sleep(self.tx_time)

    def rx(self, frame):
        msg = _can.Message(arbitration_id=frame.can_id, is_extended_id=frame.ext, data=frame.data,
                           is_fd=frame.fd, is_remote_frame=frame.remote, is_error_frame=frame.error,
                           timestamp=self.world.sim.now, check=False)
        n = len(CAPTURE.records)
        self.received.append((self.world.sim.now, frame))
        try:
            self.listener.on_message_received(msg)
        except Exception as e:   # noqa - "may raise to the caller that fed them in": recorded, never a verdict by itself
            self.notify_exc.append((self.world.sim.now, "%s: %s" % (type(e).__name__, str(e)[:120])))
        if len(CAPTURE.records) > n:
            for r in CAPTURE.records[n:]:
                if r[0].endswith("electronic_control_unit"):
                    self.swallowed.append((self.world.sim.now, r[2]))

    # configuration -------------------------------------------------------------
    def add_ca(self, cname, name_value, addr, bypass=True, aac=None):
        j = load()
        nm = j.Name(value=name_value)
        if aac is not None:
            nm.arbitrary_address_capable = 1 if aac else 0
        ca = j.ControllerApplication(nm, addr, bypass_address_claim=bypass)
        self.ecu.add_ca(controller_application=ca)
        self.cas[cname] = ca
        return ca

    def listen_ca(self, cname, lname=None, slow=0.0):
        lname = lname or cname
        cb = self._mk_cb(lname, slow)
        self.cas[cname].subscribe(cb)
        return cb

    def listen_ecu(self, lname, dev_adr=None, slow=0.0):
        cb = self._mk_cb(lname, slow)
        self.ecu.subscribe(cb, dev_adr)
        return cb

    def listen_requests(self, cname):
        def cb(src, dest, pgn):
            self.requests.append((self.world.sim.now, cname, src, dest, pgn))
        self.cas[cname].subscribe_request(cb)
        return cb

    def _mk_cb(self, lname, slow=0.0):
        def cb(priority, pgn, sa, timestamp, data):
            self.deliveries.append((self.world.sim.now, lname, priority, pgn, sa,
                                    bytes(data) if data is not None else None))
            if slow:
                # a slow application callback: the receiving context of THIS stack is blocked for a while (further frames for it
                # queue up in bus order), everything else keeps running
                sk.FAKE_TIME.sleep(slow)
            if self.rx_hooks:
                hooks, self.rx_hooks = self.rx_hooks, []
                for h in hooks:
                    h(lname)
        return cb

    # observation ---------------------------------------------------------------
    def alive(self):
        return all(not t.done for t in self.threads)

    def dead_threads(self):
        return [(t.name, type(t.exc).__name__ if t.exc else None, str(t.exc)[:160] if t.exc else None)
                for t in self.threads if t.done]

    def peek_sessions(self):
        """(n_rcv, n_snd, n_mpg) or None when the private tables are not readable."""
        dll = getattr(self.ecu, "j1939_dll", None)
        if dll is None:
            return None
        r = getattr(dll, "_rcv_buffer", None)
        s = getattr(dll, "_snd_buffer", None)
        if not isinstance(r, dict) or not isinstance(s, dict):
            return None
        m = getattr(dll, "_multi_pg_snd_buffer", None)
        return (len(r), len(s), len(m) if isinstance(m, dict) else 0)


class World:
    def __init__(self, latency=None, default_latency=(0.0005,), wake_eps=(0.0,), dispatch=(0.0,),
                 drop=(), silence=None, reconnect_at=None, inject=None, preempt=None, trace=False,
                 start=1000.0):
        load()
        CAPTURE.records.clear()
        self.sim = sk.begin(start=start, wake_eps=wake_eps, dispatch=dispatch, preempt=preempt,
                            trace=trace, trace_prefix=j1939_dir())
        self.bus = simbus.Bus(self.sim, latency=latency, default_latency=default_latency, drop=drop,
                              silence=silence, reconnect_at=reconnect_at, inject=inject)
        self.stacks = []
        self.closed = False
        self.storm = False

    def stack(self, name, **kw):
        s = Stack(self, name, **kw)
        self.stacks.append(s)
        return s

    def at(self, t_rel, fn):
        """Schedule fn at start + t_rel (application action in scheduler context)."""
        self.sim.schedule(self.t0 + t_rel, fn)

    @property
    def t0(self):
        return 1000.0

    def run_until(self, T):
        try:
            self.sim.run_until(T)
        except sk.StormDetected:
            self.storm = True

    def run_for(self, d):
        self.run_until(self.sim.now + d)

    def close(self):
        if self.closed:
            return
        self.closed = True
        try:
            for s in self.stacks:
                if s.alive():
                    try:
                        s.ecu.stop()
                    except sk.StormDetected:
                        self.storm = True
                    except sk.HarnessError:
                        raise
                    except Exception as e:     # stop() of a broken stack must not mask the verdict
                        self.sim.observe("stop-failed", (s.name, repr(e)[:200]))
        finally:
            sk.end()

    def __enter__(self):
        return self

    def __exit__(self, *a):
        self.close()
        return False

    # ------------------------------------------------------------------ summary
    def liveness_problems(self):
        """Observations that mean 'background processing stopped or spins'."""
        out = []
        for t, kind, detail in self.sim.obs:
            if kind in ("spin", "thread-died", "hang", "storm"):
                out.append((kind, detail, t))
        if self.storm and not any(k == "storm" for k, _, _ in out):
            out.append(("storm", None, self.sim.now))
        return out
