"""Independent reference codec written from the SAE frame layouts (DESIGN.md 2.3).

Imports nothing from j1939.  All functions are plain arithmetic on ints/bytes.
"""

# ----------------------------------------------------------------- 29-bit identifier
def id_compose(priority, pgn18, sa):
    return ((priority & 7) << 26) | ((pgn18 & 0x3FFFF) << 8) | (sa & 0xFF)


def id_fields(can_id):
    """-> dict(priority, edp, dp, pf, ps, sa, pgn18, pdu1, da, pgn)
    pgn = the parameter group number proper: PS zeroed for PDU1."""
    sa = can_id & 0xFF
    ps = (can_id >> 8) & 0xFF
    pf = (can_id >> 16) & 0xFF
    dp = (can_id >> 24) & 1
    edp = (can_id >> 25) & 1
    prio = (can_id >> 26) & 7
    pdu1 = pf < 240
    pgn18 = (can_id >> 8) & 0x3FFFF
    pgn = (edp << 17) | (dp << 16) | (pf << 8) | (0 if pdu1 else ps)
    return {"priority": prio, "edp": edp, "dp": dp, "pf": pf, "ps": ps, "sa": sa, "pgn18": pgn18,
            "pdu1": pdu1, "da": ps if pdu1 else 255, "pgn": pgn}


def mk_id(priority, dp, pf, ps, sa):
    return id_compose(priority, ((dp & 1) << 16) | ((pf & 0xFF) << 8) | (ps & 0xFF), sa)


# ------------------------------------------------------------------------- NAME
NAME_FIELDS = [            # (attribute, lowest bit, width)  SAE J1939-81
    ("identity_number", 0, 21),
    ("manufacturer_code", 21, 11),
    ("ecu_instance", 32, 3),
    ("function_instance", 35, 5),
    ("function", 40, 8),
    ("reserved_bit", 48, 1),
    ("vehicle_system", 49, 7),
    ("vehicle_system_instance", 56, 4),
    ("industry_group", 60, 3),
    ("arbitrary_address_capable", 63, 1),
]


def name_value(fields):
    v = 0
    for attr, lo, width in NAME_FIELDS:
        v |= (int(fields.get(attr, 0)) & ((1 << width) - 1)) << lo
    return v


def name_fields(value):
    return {attr: (value >> lo) & ((1 << width) - 1) for attr, lo, width in NAME_FIELDS}


def name_bytes(value):
    return [(value >> (8 * i)) & 0xFF for i in range(8)]


def name_from_bytes(b):
    v = 0
    for i in range(8):
        v |= (b[i] & 0xFF) << (8 * i)
    return v


# ---------------------------------------------------------------- J1939-21 transport
TP_CM_PF, TP_DT_PF = 0xEC, 0xEB
RTS, CTS, EOM_ACK, BAM, ABORT = 16, 17, 19, 32, 255


def pgn_le(pgn):
    return [pgn & 0xFF, (pgn >> 8) & 0xFF, (pgn >> 16) & 0xFF]


def pgn_from_le(b):
    return b[0] | (b[1] << 8) | (b[2] << 16)


def tp_rts(size, packets, limit, pgn):
    return [RTS, size & 0xFF, size >> 8, packets, limit] + pgn_le(pgn)


def tp_cts(n, nxt, pgn):
    return [CTS, n, nxt, 0xFF, 0xFF] + pgn_le(pgn)


def tp_eom_ack(size, packets, pgn):
    return [EOM_ACK, size & 0xFF, size >> 8, packets, 0xFF] + pgn_le(pgn)


def tp_bam(size, packets, pgn):
    return [BAM, size & 0xFF, size >> 8, packets, 0xFF] + pgn_le(pgn)


def tp_abort(reason, pgn):
    return [ABORT, reason, 0xFF, 0xFF, 0xFF] + pgn_le(pgn)


def tp_dt(seq, chunk):
    return [seq] + list(chunk) + [0xFF] * (7 - len(chunk))


def tp_packets(size):
    return -(-size // 7)


# ---------------------------------------------------------------- J1939-22 transport
FD_CM_PF, FD_DT_PF = 0x4D, 0x4E
FD_RTS, FD_CTS, FD_EOMS, FD_EOMA, FD_BAM, FD_ABORT = 0, 1, 2, 3, 4, 15
FD_LEGAL = [0, 1, 2, 3, 4, 5, 6, 7, 8, 12, 16, 20, 24, 32, 48, 64]


def le24(v):
    return [v & 0xFF, (v >> 8) & 0xFF, (v >> 16) & 0xFF]


def from_le24(b):
    return b[0] | (b[1] << 8) | (b[2] << 16)


def fd_cm(ctrl, session, f1, f2, b7, b8, pgn):
    return [(ctrl & 0xF) | ((session & 0xF) << 4)] + le24(f1) + le24(f2) + [b7 & 0xFF, b8 & 0xFF] + pgn_le(pgn)


def fd_rts(session, size, segments, limit, pgn, adt=0):
    return fd_cm(FD_RTS, session, size, segments, limit, adt, pgn)


def fd_cts(session, nxt, n, pgn, request_code=0):
    return fd_cm(FD_CTS, session, 0xFFFFFF, nxt, n, request_code, pgn)


def fd_eoms(session, size, segments, pgn, ad_size=0, adt=0):
    return fd_cm(FD_EOMS, session, size, segments, ad_size, adt, pgn)


def fd_eoma(session, size, segments, pgn):
    return fd_cm(FD_EOMA, session, size, segments, 0xFF, 0xFF, pgn)


def fd_bam(session, size, segments, pgn, adt=0):
    return fd_cm(FD_BAM, session, size, segments, 0xFF, adt, pgn)


def fd_abort(session, reason, pgn):
    return fd_cm(FD_ABORT, session, 0xFFFFFF, 0xFFFFFF, 0xFF, reason, pgn)


def fd_pad_len(n):
    for l in FD_LEGAL:
        if l >= n:
            return l
    raise ValueError(n)


def fd_dt(session, seg, chunk, dtfi=0):
    d = [(dtfi & 0xF) | ((session & 0xF) << 4)] + le24(seg) + list(chunk)
    return d + [0xFF] * (fd_pad_len(len(d)) - len(d))


def fd_segments(size):
    return -(-size // 60)


# ------------------------------------------------------------------------- multi-PG
MULTI_PG_PGN = 0x2500


def mpg_unpack(data):
    """Reference unpacker: [(tos, tf, cpgn, payload bytes)] ; stops at TOS 0 or when < 4 bytes remain.
    Raises ValueError when a header announces more bytes than remain."""
    out = []
    i = 0
    n = len(data)
    while n - i >= 4:
        tos = (data[i] >> 5) & 7
        if tos == 0:
            break
        tf = (data[i] >> 2) & 7
        cpgn = ((data[i] & 3) << 16) | (data[i + 1] << 8) | data[i + 2]
        ln = data[i + 3]
        if i + 4 + ln > n:
            raise ValueError("contained group at offset %d announces %d bytes, %d remain" % (i, ln, n - i - 4))
        out.append((tos, tf, cpgn, bytes(data[i + 4:i + 4 + ln])))
        i += 4 + ln
    return out


def mpg_pack(groups):
    """groups: [(cpgn, payload)] -> frame bytes padded to a legal FD length (TOS 2 / TF 0)."""
    d = []
    for cpgn, pl in groups:
        d += [(2 << 5) | ((cpgn >> 16) & 3), (cpgn >> 8) & 0xFF, cpgn & 0xFF, len(pl)] + list(pl)
    L = fd_pad_len(len(d))
    pad = L - len(d)
    d += [0] * min(pad, 3) + [0xAA] * max(0, pad - 3)
    return d


# ---------------------------------------------------------------------- diagnostics
def dtc_pack(spn, fmi, oc, cm=0):
    """SAE J1939-73 DTC, 4 bytes little-endian as a 32-bit int:
    byte0 = SPN 7..0, byte1 = SPN 15..8, byte2 = SPN 18..16 in bits 7..5 | FMI in bits 4..0,
    byte3 = CM bit 7 | OC bits 6..0"""
    b0 = spn & 0xFF
    b1 = (spn >> 8) & 0xFF
    b2 = (((spn >> 16) & 7) << 5) | (fmi & 0x1F)
    b3 = ((cm & 1) << 7) | (oc & 0x7F)
    return b0 | (b1 << 8) | (b2 << 16) | (b3 << 24)


def dtc_unpack(v):
    b0, b1, b2, b3 = v & 0xFF, (v >> 8) & 0xFF, (v >> 16) & 0xFF, (v >> 24) & 0xFF
    return {"spn": b0 | (b1 << 8) | ((b2 >> 5) << 16), "fmi": b2 & 0x1F, "oc": b3 & 0x7F, "cm": b3 >> 7}


# lamp order in DM1 byte 0 (status) / byte 1 (flash): PL bits 1..0, AWL 3..2, RSL 5..4, MIL 7..6
LAMP_SHIFT = {"pl": 0, "awl": 2, "rsl": 4, "mil": 6}
# status: 0 off, 1 on ; flash: 0 slow, 1 fast, 3 do not flash (steady)
OFF, ON, SLOW, FAST, NA = 0, 1, 2, 3, 4
LAMP_BITS = {OFF: (0, 3), ON: (1, 3), SLOW: (1, 0), FAST: (1, 1), NA: (3, 3)}


def lamps_pack(states):
    b0 = b1 = 0
    for k, sh in LAMP_SHIFT.items():
        lamp, flash = LAMP_BITS[states.get(k, OFF)]
        b0 |= lamp << sh
        b1 |= flash << sh
    return [b0, b1]


def lamps_unpack(b0, b1):
    out = {}
    inv = {v: k for k, v in LAMP_BITS.items()}
    for k, sh in LAMP_SHIFT.items():
        out[k] = inv.get(((b0 >> sh) & 3, (b1 >> sh) & 3), NA)
    return out


def dm1_payload(lamps, dtcs):
    d = lamps_pack(lamps)
    for t in dtcs:
        v = dtc_pack(t["spn"], t["fmi"], t.get("oc", 0) or 0)
        d += [v & 0xFF, (v >> 8) & 0xFF, (v >> 16) & 0xFF, (v >> 24) & 0xFF]
    return d


def dm22_request(control, spn, fmi):
    """DM22: byte0 control, bytes 1..4 0xFF, byte5 SPN 7..0, byte6 SPN 15..8, byte7 SPN 18..16 (bits 7..5) | FMI"""
    return [control, 0xFF, 0xFF, 0xFF, 0xFF, spn & 0xFF, (spn >> 8) & 0xFF, (((spn >> 16) & 7) << 5) | (fmi & 0x1F)]
