"""C05 - messages reach only the addressed applications; foreign traffic is ignored.

Generated configurations: one stack with 0..3 CAs in generated claim states plus ECU-level listeners
(unfiltered, integer address, predicate), on either data link layer.  Per configuration the inner
sweep is exhaustive over all 256 destination addresses: to every unowned address a battery of
frames (single PDU1, request, TP.CM RTS/CTS/EndOfMsgACK/Abort, TP.DT, FD equivalents, multi-PG, a
complete foreign RTS/CTS session) must cause no delivery, no transmitted frame and no lasting
state; to every owned address a single frame and a complete transfer must reach exactly the
listeners bound to it; broadcasts reach every listener; all (extended, remote, error) flag
combinations are tried on frames that would otherwise be delivered.  DESIGN.md 5/C05.
"""
from hypothesis import strategies as st

from vlib import world as W
from vlib import simbus
from vlib import refcodec as R
from vlib.refpeer import RefPeer

SA_F, SA_G = 0x90, 0x91       # two foreign nodes
STATES = ["bypass", "bypass", "none", "wait_veto", "claimed", "cannot_claim"]


def _strategy():
    @st.composite
    def build(draw):
        # addresses of CAs and integer listener filters: anything 0..253, boundary values (0, 1, 127/128, 247/248, 253) favoured
        addrs = draw(st.lists(st.one_of(st.sampled_from([0, 0, 1, 2, 0x7F, 0x80, 0xF7, 0xF8, 0xFD]), st.integers(0, 253),
                                        st.integers(0, 253)).filter(lambda a: a not in (SA_F, SA_G)),
                              min_size=6, max_size=6, unique=True))
        cas = []
        for k in range(draw(st.integers(0, 3))):
            stt = draw(st.sampled_from(STATES))
            a = addrs[k]
            if stt == "wait_veto":
                a = (129 + a % 90) | 1
            cas.append({"state": stt, "addr": a, "listen": draw(st.booleans()) or k == 0})
        lis = []
        for k in range(draw(st.integers(0, 3))):
            kind = draw(st.sampled_from(["none", "int", "int", "pred"]))
            l = {"kind": kind}
            if kind == "int":
                l["addr"] = draw(st.sampled_from([addrs[3], addrs[4], cas[0]["addr"] if cas else addrs[5]]))
            elif kind == "pred":
                l["mod"] = draw(st.sampled_from([2, 3, 16]))
            lis.append(l)
        return {"dll": draw(st.sampled_from(["j1939-21", "j1939-22"])), "cas": cas, "listeners": lis,
                "max_cmdt": draw(st.sampled_from([1, 3, 255]))}
    return build()


class C05:
    ID = "C05"
    LEVEL = "exploration"
    TECHNIQUE = ("property-based configuration generation (Hypothesis) with an exhaustive inner sweep over all 256 destination "
                 "addresses and all 8 frame-flag combinations; oracle = reference routing table, no-TX and no-state checks")
    RULE = ("a case is a configuration (0-3 CAs each bypassed / not started / waiting for veto / operational after claiming / "
            "cannot-claim, 0-3 ECU-level listeners unfiltered / integer address / predicate, J1939-21 or -22); inside the case "
            "every destination 0..255 is exercised: unowned ones with a battery of single-frame and transport frames incl. a "
            "complete foreign RTS/CTS session, owned ones with a single frame and a complete transfer from a reference peer; plus "
            "broadcasts and all 8 (extended, remote, error) flag combinations; 'subruns' counts injected frames; non-trivial = "
            "configuration with an address-less CA or >= 2 CAs or an ECU-level listener; distinct = distinct configurations")
    ASSUMPTIONS = [
        "a predicate listener is an upper bound only: it may receive a destination it accepts, it does not make the stack own it",
        "ownership of an address (operational CA or integer listener) is read from public state at the instant of injection",
        "request frames are judged only for 'no subscriber delivery / no frame / no state' here (C14 judges request callbacks)",
    ]
    shrink_lists = ("cas", "listeners")

    def strategy(self, tier):
        return _strategy()

    def examples(self, tier):
        return 160 if tier == "quick" else 24000

    def enumerate(self, tier):
        return []

    def exhaustive(self, tier):
        return False

    def coverage_note(self, tier):
        return "all 256 destination addresses and all 8 flag combinations are enumerated for every generated configuration"

    def run_case(self, p):
        fd = p["dll"] == "j1939-22"
        viol = []

        def V(kind, msg, site=""):
            viol.append({"kind": kind, "msg": msg, "bucket": "C05|%s|%s|%s" % (kind, "22" if fd else "21", site)})

        w = W.World(latency={"S": [0.0002], "F": [0.0002], "G": [0.0002], "X": [0.0002]})
        nframes = 0
        try:
            j = W.load()
            State = j.ControllerApplication.State
            s = w.stack("S", dll=p["dll"], max_cmdt=p["max_cmdt"])
            raw = simbus.RawNode(w.bus, "X")
            peer = RefPeer(w.bus, "F", SA_F, fd=fd, grants=[255], reply_lat=[0.0005])
            cas = []
            for k, c in enumerate(p["cas"]):
                ca = s.add_ca("c%d" % k, 0x5000 + k, c["addr"], bypass=(c["state"] == "bypass"))
                if c["listen"]:
                    s.listen_ca("c%d" % k, "ca%d" % k)
                cas.append(ca)
            lis = []
            for k, l in enumerate(p["listeners"]):
                nm = "L%d" % k
                if l["kind"] == "none":
                    s.listen_ecu(nm, None)
                elif l["kind"] == "int":
                    s.listen_ecu(nm, l["addr"])
                else:
                    s.listen_ecu(nm, (lambda m: (lambda d: d % m == 0))(l["mod"]))
                lis.append(nm)
            for ca, c in zip(cas, p["cas"]):
                if c["state"] in ("claimed", "cannot_claim"):
                    ca.start(0.0)
            w.run_for(0.6)
            for ca, c in zip(cas, p["cas"]):
                if c["state"] == "cannot_claim":
                    raw.send(R.mk_id(6, 0, 0xEE, 255, c["addr"]), R.name_bytes(0x10))
            w.run_for(0.8)
            for ca, c in zip(cas, p["cas"]):
                if c["state"] == "wait_veto":
                    ca.start(0.0)
            w.run_for(0.005)

            def owners():
                """address -> set of listener names that MUST get a destination-specific message; + may-set"""
                own = {}
                for k, (ca, c) in enumerate(zip(cas, p["cas"])):
                    if ca.state == State.NORMAL:
                        own.setdefault(ca.device_address, set())
                        if c["listen"]:
                            own[ca.device_address].add("ca%d" % k)
                for k, l in enumerate(p["listeners"]):
                    if l["kind"] == "int":
                        own.setdefault(l["addr"], set()).add("L%d" % k)
                return own

            def expect_for(da, own):
                must = set(own.get(da, set()))
                may = set()
                if da in own:
                    for k, l in enumerate(p["listeners"]):
                        if l["kind"] == "none":
                            must.add("L%d" % k)
                        elif l["kind"] == "pred" and da % l["mod"] == 0:
                            may.add("L%d" % k)
                return must, may

            all_listeners = set(["ca%d" % k for k, c in enumerate(p["cas"]) if c["listen"]] + lis)
            pstate = {"n": 0}

            def inject(can_id, data, fdf=False, **flags):
                raw.send(can_id, data, fd=fdf, **flags)
                pstate["n"] += 1

            def settle():
                w.run_for(0.0006)

            def snapshot():
                return (len(s.deliveries), len([e for e in w.bus.log if e.node == "S"]), s.peek_sessions())

            def judge_nothing(before, what, da, site):
                after = snapshot()
                if after[0] != before[0]:
                    d = s.deliveries[before[0]]
                    V("delivery-to-unaddressed", "%s to unowned address %d was delivered to listener %s (pgn 0x%X)" % (what, da, d[1], d[3]), site)
                    return False
                if after[1] != before[1]:
                    e = [e for e in w.bus.log if e.node == "S"][before[1]]
                    V("tx-for-foreign-traffic", "%s to unowned address %d made the stack transmit id 0x%08X data %s" %
                      (what, da, e.can_id, e.data.hex()[:24]), site)
                    return False
                if after[2] is not None and before[2] is not None and after[2] != before[2]:
                    V("state-for-foreign-traffic", "%s to unowned address %d changed the session tables %r -> %r" % (what, da, before[2], after[2]), site)
                    return False
                return True

            own0 = owners()
            pgn_app = 0xC900
            payload = bytes(range(1, 9))
            big = bytes(W.make_payload({"n": 100 if fd else 20, "cls": "arith", "a": 7, "b": 3}))
            ok = True
            for da in range(256):
                if not ok:
                    break
                own = owners()
                if da == 255:
                    continue
                if da not in own:
                    battery = [("single PDU1 frame", R.mk_id(6, 0, 0xC9, da, SA_F), payload, False),
                               ("request", R.mk_id(6, 0, 0xEA, da, SA_F), bytes(R.pgn_le(0xFECA)), False)]
                    if not fd:
                        battery += [("TP.CM RTS", R.mk_id(7, 0, 0xEC, da, SA_F), bytes(R.tp_rts(20, 3, 255, pgn_app)), False),
                                    ("TP.DT", R.mk_id(7, 0, 0xEB, da, SA_F), bytes(R.tp_dt(1, big[:7])), False),
                                    ("TP.CM CTS", R.mk_id(7, 0, 0xEC, da, SA_F), bytes(R.tp_cts(1, 1, pgn_app)), False),
                                    ("TP.CM EndOfMsgACK", R.mk_id(7, 0, 0xEC, da, SA_F), bytes(R.tp_eom_ack(20, 3, pgn_app)), False),
                                    ("TP.CM Abort", R.mk_id(7, 0, 0xEC, da, SA_F), bytes(R.tp_abort(1, pgn_app)), False)]
                    else:
                        battery += [("FD.TP.CM RTS", R.mk_id(7, 0, 0x4D, da, SA_F), bytes(R.fd_rts(1, 100, 2, 255, pgn_app)), True),
                                    ("FD.TP.DT", R.mk_id(7, 0, 0x4E, da, SA_F), bytes(R.fd_dt(1, 1, big[:60])), True),
                                    ("FD.TP.CM CTS", R.mk_id(7, 0, 0x4D, da, SA_F), bytes(R.fd_cts(0, 1, 1, pgn_app)), True),
                                    ("FD.TP.CM EOMS", R.mk_id(7, 0, 0x4D, da, SA_F), bytes(R.fd_eoms(1, 100, 2, pgn_app)), True),
                                    ("FD.TP.CM EOMA", R.mk_id(7, 0, 0x4D, da, SA_F), bytes(R.fd_eoma(0, 100, 2, pgn_app)), True),
                                    ("FD.TP.CM Abort", R.mk_id(7, 0, 0x4D, da, SA_F), bytes(R.fd_abort(0, 1, pgn_app)), True),
                                    ("multi-PG frame", R.mk_id(6, 0, 0x25, da, SA_F), bytes(R.mpg_pack([(pgn_app, payload)])), True)]
                    for what, cid, data, fdf in battery:
                        before = snapshot()
                        inject(cid, data, fdf)
                        settle()
                        if owners() != own:
                            break        # a claim state changed meanwhile: ownership ambiguous, skip the rest for this address
                        if not judge_nothing(before, what, da, "unowned"):
                            ok = False
                            break
                else:
                    must, may = expect_for(da, own)
                    nd = len(s.deliveries)
                    inject(R.mk_id(6, 0, 0xC9, da, SA_F), payload)
                    settle()
                    if owners() != own:
                        continue
                    got = [d for d in s.deliveries[nd:]]
                    names = sorted(d[1] for d in got)
                    if not (set(names) >= must and set(names) <= (must | may) and len(names) == len(set(names))):
                        V("routing-single", "single frame to owned address %d delivered to %r; must reach %r, may reach %r" %
                          (da, names, sorted(must), sorted(may)), "owned")
                        ok = False
                        break
                    if any(d[3] != 0xC900 or d[4] != SA_F or d[5] != payload for d in got):
                        V("routing-content", "single frame to %d delivered with pgn/sa/data %r" % (da, [(hex(d[3]), d[4]) for d in got][:2]), "owned")
                        ok = False
                        break
                    # complete transfer from the reference peer
                    nd = len(s.deliveries)
                    peer.originate_rts(da, 0xCB00, big, limit=255, dt_gap=0.0002, session=3)
                    w.run_for(0.05 + (0.02 if fd else 0.0))
                    if owners() != own:
                        continue
                    got = [d for d in s.deliveries[nd:] if d[3] == 0xCB00]
                    names = sorted(d[1] for d in got)
                    if not (set(names) >= must and set(names) <= (must | may) and len(names) == len(set(names))) or any(d[5] != big for d in got):
                        V("routing-transfer", "RTS/CTS transfer to owned address %d delivered to %r; must reach %r, may reach %r" %
                          (da, names, sorted(must), sorted(may)), "owned")
                        ok = False
                        break
            # complete foreign session between two other nodes (both unowned by construction unless a listener sits there)
            own = owners()
            if ok and SA_F not in own and SA_G not in own:
                peer2 = RefPeer(w.bus, "G", SA_G, fd=fd, grants=[2], reply_lat=[0.0005])
                before = snapshot()
                peer.originate_rts(SA_G, 0xCB00, big, limit=255, dt_gap=0.0005, session=2)
                w.run_for(0.1)
                pstate["n"] += 8
                if not any(m[4] == big for m in peer2.messages):
                    raise W.sk.HarnessError("reference peers failed to complete their own session")
                ok = judge_nothing(before, "a complete foreign RTS/CTS session (0x%02X -> 0x%02X)" % (SA_F, SA_G), SA_G, "bystander")
            # broadcasts: every listener
            if ok:
                for what, cid, data, fdf, pg in [("PDU2 frame", R.mk_id(6, 0, 0xFE, 0xCA, SA_F), payload, False, 0xFECA),
                                                 ("PDU1 frame to the global address", R.mk_id(6, 0, 0xC9, 255, SA_F), payload, False, 0xC900)]:
                    nd = len(s.deliveries)
                    inject(cid, data, fdf)
                    settle()
                    names = sorted(d[1] for d in s.deliveries[nd:] if d[3] == pg)
                    if names != sorted(all_listeners):
                        V("broadcast-routing", "%s delivered to %r, every listener %r expected" % (what, names, sorted(all_listeners)), "broadcast")
                        ok = False
                nd = len(s.deliveries)
                peer.originate_bam(0xFEDA, big, gap=0.01 if fd else 0.05, session=1)
                w.run_for(0.6)
                names = sorted(d[1] for d in s.deliveries[nd:] if d[3] == 0xFEDA and d[5] == big)
                if names != sorted(all_listeners):
                    V("broadcast-routing", "BAM delivered to %r, every listener %r expected" % (names, sorted(all_listeners)), "bam")
                    ok = False
            # connection-mode flow control addressed to the GLOBAL address: no CA or listener holds address 255, an answer could
            # only carry source address 255 - nothing is delivered, transmitted or kept
            if ok:
                if not fd:
                    battery = [("TP.CM RTS", R.mk_id(7, 0, 0xEC, 255, SA_F), bytes(R.tp_rts(20, 3, 255, pgn_app)), False),
                               ("TP.CM CTS", R.mk_id(7, 0, 0xEC, 255, SA_F), bytes(R.tp_cts(1, 1, pgn_app)), False),
                               ("TP.CM EndOfMsgACK", R.mk_id(7, 0, 0xEC, 255, SA_F), bytes(R.tp_eom_ack(20, 3, pgn_app)), False),
                               ("TP.CM Abort", R.mk_id(7, 0, 0xEC, 255, SA_F), bytes(R.tp_abort(1, pgn_app)), False)]
                else:
                    battery = [("FD.TP.CM RTS", R.mk_id(7, 0, 0x4D, 255, SA_F), bytes(R.fd_rts(1, 100, 2, 255, pgn_app)), True),
                               ("FD.TP.CM CTS", R.mk_id(7, 0, 0x4D, 255, SA_F), bytes(R.fd_cts(0, 1, 1, pgn_app)), True),
                               ("FD.TP.CM EOMA", R.mk_id(7, 0, 0x4D, 255, SA_F), bytes(R.fd_eoma(0, 100, 2, pgn_app)), True),
                               ("FD.TP.CM Abort", R.mk_id(7, 0, 0x4D, 255, SA_F), bytes(R.fd_abort(0, 1, pgn_app)), True)]
                for what, cid, data, fdf in battery:
                    before = snapshot()
                    inject(cid, data, fdf)
                    settle()
                    if not judge_nothing(before, what + " addressed to the global address", 255, "global-cm"):
                        ok = False
                        break
            # flags: only extended data frames are processed
            if ok:
                own = owners()
                targets = [255] + sorted(own)[:2]
                for da in targets:
                    for ext in (True, False):
                        for remote in (False, True):
                            for error in (False, True):
                                before = snapshot()
                                cid = R.mk_id(6, 0, 0xC9, da, SA_F)
                                inject(cid if ext else (cid & 0x7FF), payload, False, ext=ext, remote=remote, error=error)
                                settle()
                                delivered = len(s.deliveries) - before[0]
                                if ext and not remote and not error:
                                    if delivered == 0 and (da == 255 and all_listeners or da != 255 and expect_for(da, own)[0]):
                                        V("flags-good-frame-dropped", "extended data frame to %d was not delivered" % da, "flags")
                                else:
                                    if delivered or snapshot()[1] != before[1]:
                                        V("flags-processed", "a frame with extended=%r remote=%r error=%r (dest %d) was processed (%d deliveries)"
                                          % (ext, remote, error, da, delivered), "flags")
                                        ok = False
            # later genuine transfer to an owned address still works
            own = owners()
            if ok and own:
                da = sorted(own)[0]
                must, may = expect_for(da, own)
                nd = len(s.deliveries)
                big2 = bytes(W.make_payload({"n": 120 if fd else 30, "cls": "arith", "a": 99, "b": 5}))
                peer.originate_rts(da, 0xCC00, big2, limit=255, dt_gap=0.0002, session=4)
                w.run_for(0.2)
                got = [d for d in s.deliveries[nd:] if d[3] == 0xCC00 and d[5] == big2]
                if must and not got:
                    V("followup-lost", "after the sweep a genuine transfer to owned address %d was not delivered" % da, "followup")
            # an address that is lost WHILE a transport session to it is open: the remaining data packets are addressed to an
            # address nobody owns any more and must cause no transmission and no delivery (judged well inside T2 = 1.25 s)
            if ok:
                cand = [(k, ca) for k, (ca, c) in enumerate(zip(cas, p["cas"])) if ca.state == State.NORMAL
                        and not any(l["kind"] == "int" and l["addr"] == ca.device_address for l in p["listeners"])]
                if cand:
                    k, ca = cand[0]
                    da = ca.device_address
                    big3 = bytes(W.make_payload({"n": 300 if fd else 40, "cls": "arith", "a": 55, "b": 9}))
                    peer.originate_rts(da, 0xCD00, big3, limit=255, dt_gap=0.02, session=6)
                    w.run_for(0.005)
                    raw.send(R.mk_id(6, 0, 0xEE, 255, da), R.name_bytes(0x11))          # a lower NAME takes the address
                    w.run_for(0.002)
                    if not (ca.state == State.NORMAL and ca.device_address == da):
                        before = snapshot()
                        before = (before[0], before[1], None)        # the open session itself may linger until its timeout
                        w.run_for(0.3)
                        pstate["n"] += 6
                        judge_nothing(before, "data packets of a session that was open when the CA lost the address", da, "lost-mid-session")
                        w.run_for(1.5)
            nframes = pstate["n"]
            live = w.liveness_problems()
        finally:
            w.close()
        for k2, detail, tt in live:
            V("liveness-" + k2, "%s %r" % (k2, detail))
        addrless = any(c["state"] in ("none", "wait_veto", "cannot_claim") for c in p["cas"])
        labels = ["22" if fd else "21", "cas=%d" % len(p["cas"]), "listeners=%d" % len(p["listeners"])]
        labels += sorted({"ca-" + c["state"] for c in p["cas"]} | {"lis-" + l["kind"] for l in p["listeners"]})
        return {"violations": viol, "labels": labels, "subruns": max(1, nframes),
                "nontrivial": addrless or len(p["cas"]) >= 2 or bool(p["listeners"]),
                "sample": {k: p[k] for k in ("dll", "cas", "listeners")}}


CHECK = C05()
