"""C11 - FD multi-PG packing preserves every group and honours frame and time limits.

Generated: 1..12 send_pgn calls with 1..60 bytes, PDU1/PDU2 PGNs, destinations {0x40, 0x41, 255},
time_limit in {0, 1..200 ms}, FEFF (extended) or FBFF (base, broadcast only), from application or
timer-callback context at arbitrary instants.  Oracle: delivery multiset per listener (FEFF),
reference unpacker over every emitted frame, legal FD lengths, no mixing of destinations /
formats, each group on the bus within its time limit.  DESIGN.md 5/C11.
"""
import collections
from hypothesis import strategies as st

from vlib import world as W
from vlib import refcodec as R
from vlib import simbus
from vlib import simkernel as sk
from vlib.netmodel import RESERVED_PF

SA_S, DA1, DA2 = 0x30, 0x40, 0x41
LENS = [1, 1, 2, 8, 26, 27, 28, 29, 56, 57, 58, 59, 60]
FEFF, FBFF = 3, 2


def _strategy():
    ln = st.one_of(st.sampled_from(LENS), st.integers(1, 60))
    call = st.builds(
        lambda t, n, kind, dp, pf1, pf2, ps, prio, lim, fbff, ctx, a: {
            "t_ms": t, "n": n, "kind": kind, "dp": dp, "pf": pf2 if kind == "bc2" else (pf1 if (dp == 1 or pf1 not in RESERVED_PF) else 0xB0), "ps": ps, "prio": prio,
            "limit_ms": lim, "fmt": "FBFF" if (fbff and kind in ("bc1", "bc2")) else "FEFF", "ctx": ctx, "a": a},
        st.sampled_from([0, 0, 0, 1, 2, 5, 10, 50, 100, 250, 1000, 4000]), ln,
        st.sampled_from(["d1", "d1", "d2", "bc1", "bc2", "bc2"]), st.integers(0, 1),
        # (the protocol's own PDU formats are reserved on data page 0 only; on data page 1 they are ordinary groups)
        st.one_of(st.integers(0, 239), st.integers(0, 239), st.sampled_from(sorted(RESERVED_PF))), st.integers(240, 255), st.integers(0, 255),
        st.integers(0, 7), st.sampled_from([0, 0, 1, 2, 5, 10, 20, 50, 100, 200]), st.sampled_from([False, False, False, True]),
        st.sampled_from(["app", "app", "timer"]), st.integers(0, 255))
    return st.fixed_dictionaries({
        "calls": st.lists(call, min_size=1, max_size=12),
        "eps": st.lists(st.sampled_from([0.0, 1e-6, 1e-5, 1e-4]), min_size=1, max_size=2),
        "disp": st.lists(st.sampled_from([0.0, 1e-6, 1e-5, 1e-4]), min_size=1, max_size=2),
        "lat": st.lists(st.sampled_from(simbus.LATENCY_GRID[1:]), min_size=1, max_size=3),
        "pre_timer": st.sampled_from([None, None, 0.003, 0.05, 1.0]),
        "tx_time": st.sampled_from([0.0, 0.0, 0.0, 0.0005, 0.002]),      # time a frame write of the job thread takes
        "sas": st.sampled_from([[0x30, 0x40, 0x41], [0x30, 0x40, 0x41], [0x00, 0x40, 0x41], [0x30, 0x00, 0xFD], [0xFD, 0x01, 0x00], [0x80, 0xF8, 0x7F]]),
    })


class C11:
    ID = "C11"
    LEVEL = "exploration"
    TECHNIQUE = ("property-based testing: generated send_pgn sequences on a J1939-22 stack in virtual time; oracle = delivery "
                 "multiset + independent multi-PG reference unpacker over every emitted frame + deadline monitor")
    RULE = ("Hypothesis draws 1..12 send_pgn calls (1..60 bytes incl. the packing boundaries 26/27/28/56/57/60, PDU1 to two "
            "receivers or global, PDU2, time_limit 0 or 1..200 ms, FEFF or broadcast FBFF, from application or timer-callback "
            "context, submit offsets 0..4 s so that calls fall before/after/inside the background thread's sleep) frame writes of "
            "the job thread taking 0 / 0.5 / 2 ms (calls arrive while a frame is being written), and wake-up "
            "lateness/dispatch 0..100 us; non-trivial = at least two groups were packed into one frame or a non-zero time limit "
            "was used; distinct = distinct parameter sets")
    ASSUMPTIONS = [
        "FBFF frames are judged by the reference decoder only (the stack does not receive base-format frames)",
        "timeliness bound: submission + time_limit + wake-up lateness + dispatch latency (+ 2 us) + one frame write time per call "
        "of the case (a due frame may wait for frames the job thread is still writing)",
        "padding content is not judged beyond 'the reference unpacker skips it'",
    ]
    shrink_lists = ("calls",)
    shrink_min = {"calls": 1}

    def strategy(self, tier):
        return _strategy()

    def examples(self, tier):
        return 2500 if tier == "quick" else 180000

    def enumerate(self, tier):
        # application-thread schedule sweeps over a few small call sequences (buffer-full path, append path, two destinations)
        def call(t, n, kind, lim, fmt="FEFF"):
            return {"t_ms": t, "n": n, "kind": kind, "dp": 0, "pf": 0xB0 if kind != "bc2" else 0xFE, "ps": 0x10, "prio": 6,
                    "limit_ms": lim, "fmt": fmt, "ctx": "app", "a": 7}
        seqs = [[call(0, 40, "d1", 200), call(20, 40, "d1", 50)],
                [call(0, 10, "d1", 100), call(5, 10, "d1", 20), call(6, 60, "d1", 50)],
                [call(0, 30, "d1", 50), call(1, 30, "d2", 10)],
                [call(0, 40, "bc2", 100), call(10, 40, "bc2", 20), call(11, 8, "bc2", 0)],
                [call(0, 56, "d1", 30), call(2, 1, "d1", 200), call(3, 60, "d1", 5)]]
        out = []
        for i, calls in enumerate(seqs if tier == "quick" else seqs + [list(reversed(c)) for c in seqs]):
            out.append({"sweep": True, "calls": calls, "eps": [0.0, 1e-5], "disp": [0.0], "lat": [0.0002], "pre_timer": None,
                        "sas": [0x30, 0x40, 0x41], "tx_time": 0.0})
        return out

    def exhaustive(self, tier):
        return False

    def run_case(self, p):
        if not p.get("sweep"):
            return self._run_once(p)
        # schedule sweep: the calls are made by an application THREAD; it is held for 1 ms / 20 ms at its k-th traced source
        # line inside the stack (every k) while the job thread keeps running - outcome must not depend on it
        base = self._run_once(dict(p, app_thread=True))
        if base["violations"]:
            return base
        nlines = base["app_lines"]
        sub = 1
        for k in range(nlines):
            for d in (0.001, 0.02):
                r = self._run_once(dict(p, app_thread=True, hold=[k, d]))
                sub += 1
                if r["violations"]:
                    for v in r["violations"]:
                        v["msg"] += " [application thread held %g s at its traced line %d]" % (d, k)
                        v["bucket"] += "|app-preempted"
                    r["subruns"] = sub
                    return r
        base["subruns"] = sub
        base["labels"] = base["labels"] + ["app-thread-sweep"]
        base["nontrivial"] = True
        return base

    def _run_once(self, p):
        viol = []

        def V(kind, msg, site=""):
            viol.append({"kind": kind, "msg": msg, "bucket": "C11|%s|%s" % (kind, site)})

        SA_S, DA1, DA2 = p.get("sas", [0x30, 0x40, 0x41])
        txt = p.get("tx_time", 0.0)
        # (a due frame may wait for the frames the job thread is still writing in the same pass)
        L = max(p["eps"]) + max(p["disp"]) + 2e-6 + txt * (len(p["calls"]) + 1)
        if p.get("hold"):
            L += p["hold"][1]          # a held thread may hold a lock the job thread needs: scheduling latency, not a defect
        pre = [{"thread": 3, "k": p["hold"][0], "d": p["hold"][1]}] if p.get("hold") else None     # thread 3 = the application thread
        w = W.World(latency={"R1": p["lat"], "R2": p["lat"][::-1]}, wake_eps=p["eps"], dispatch=p["disp"], preempt=pre,
                    trace=bool(p.get("app_thread")))
        subs = []     # (t, fmt, da, cpgn, payload, limit, result)
        try:
            j = W.load()
            s = w.stack("S", dll="j1939-22", tx_time=txt)
            r1 = w.stack("R1", dll="j1939-22")
            r2 = w.stack("R2", dll="j1939-22")
            s.add_ca("s", 0x100, SA_S)
            r1.add_ca("a", 0x200, DA1)
            r2.add_ca("b", 0x300, DA2)
            r1.listen_ca("a", "R1.ca")
            r2.listen_ca("b", "R2.ca")
            r2.listen_ecu("R2.ecu")
            if p.get("pre_timer"):
                s.ecu.add_timer(p["pre_timer"], lambda c: True)       # a periodic timer changes where the job thread sleeps

            app_calls = []
            for ci, c in enumerate(p["calls"]):
                def do(c=c, ci=ci):
                    da = {"d1": DA1, "d2": DA2}.get(c["kind"], 255)
                    ps = c["ps"] if c["kind"] == "bc2" else da
                    data = [(c["a"] + 3 * i + ci) & 0xFF for i in range(c["n"])]
                    cpgn = (c["dp"] << 16) | (c["pf"] << 8) | (c["ps"] if c["kind"] == "bc2" else 0)
                    t_sub = w.sim.now        # (the call itself may take time when it writes a frame)
                    try:
                        r = s.cas["s"].send_pgn(c["dp"], c["pf"], ps, c["prio"], list(data), time_limit=c["limit_ms"] / 1000.0,
                                                frame_format=FBFF if c["fmt"] == "FBFF" else FEFF)
                    except Exception as e:  # noqa
                        r = "EXC:%s:%s" % (type(e).__name__, str(e)[:100])
                    subs.append({"t": t_sub, "t_ret": w.sim.now, "fmt": c["fmt"], "da": da, "cpgn": cpgn, "data": bytes(data),
                                 "limit": c["limit_ms"] / 1000.0, "r": r, "ctx": c["ctx"], "ci": ci})
                t = 0.05 + c["t_ms"] / 1000.0
                if c["ctx"] == "timer":
                    w.at(t, (lambda do=do: s.ecu.add_timer(0.0, lambda cookie: (do(), False)[1])))
                elif p.get("app_thread"):
                    app_calls.append((t, do))
                else:
                    w.at(t, do)
            if p.get("app_thread"):
                def app_body():
                    for (t_, do_) in sorted(app_calls, key=lambda x: x[0]):
                        dt_ = w.t0 + t_ - w.sim.now
                        if dt_ > 0:
                            sk.FAKE_TIME.sleep(dt_)
                        do_()
                w.sim.trace_armed = True
                app_th = sk.spawn(app_body, name="application")
                assert app_th.index == 3, app_th.index
            t_end = 0.05 + max(c["t_ms"] for c in p["calls"]) / 1000.0 + 0.2 + 5.5
            w.run_until(w.t0 + t_end)
            for kind, detail, tt in w.liveness_problems():
                V("liveness-" + kind, "%s %r" % (kind, detail))
            app_lines = w.sim.line_counts.get(3, 0) if p.get("app_thread") else 0
            log = [e for e in w.bus.log if e.node == "S"]
            deliv = {"R1.ca": [], "R2.ca": [], "R2.ecu": []}
            for stk in (r1, r2):
                for d in stk.deliveries:
                    deliv[d[1]].append((d[3], d[4], d[5]))
        finally:
            w.close()

        if len(subs) != len(p["calls"]):
            V("not-submitted", "%d of %d calls executed" % (len(subs), len(p["calls"])))
        for sb in subs:
            if sb["r"] is not True:
                V("send-failed", "send_pgn(%d bytes, %s, limit %g) returned %r" % (len(sb["data"]), sb["fmt"], sb["limit"], sb["r"]), sb["fmt"])
                break
        # ---- every emitted frame under the reference unpacker
        frames = []
        packed_multi = False
        for e in log:
            fmt = None
            if e.ext and ((e.can_id >> 16) & 0xFF) == 0x25 and ((e.can_id >> 24) & 3) == 0:
                fmt, da, sa = "FEFF", (e.can_id >> 8) & 0xFF, e.can_id & 0xFF
            elif not e.ext:
                fmt, da, sa = "FBFF", 255, e.can_id & 0xFF
            else:
                V("unexpected-frame", "frame id 0x%08X is neither a multi-PG FEFF nor an FBFF frame" % e.can_id)
                continue
            if sa != SA_S:
                V("frame-source", "%s frame carries source %d, sender is %d" % (fmt, sa, SA_S), fmt)
            if not e.fd:
                V("frame-not-fd", "multi-PG frame sent as a classical frame", fmt)
            if len(e.data) > 64 or len(e.data) not in R.FD_LEGAL:
                V("frame-length", "%s frame with %d bytes is not a legal CAN FD length <= 64" % (fmt, len(e.data)), fmt)
            try:
                groups = R.mpg_unpack(e.data)
            except ValueError as ex:
                V("frame-undecodable", "reference unpacker: %s (frame %s)" % (ex, e.data.hex()), fmt)
                continue
            if not groups:
                V("frame-empty", "frame %s contains no parameter group for the reference unpacker" % e.data.hex(), fmt)
            for (tos, tf, cpgn, pl) in groups:
                if tos != 2 or tf != 0:
                    V("group-header", "contained group with TOS %d / TF %d (expected 2 / 0): padding misread as a group or "
                      "wrong header" % (tos, tf), fmt)
            if len(groups) >= 2:
                packed_multi = True
            frames.append((e.t, fmt, da, [(g[2], g[3]) for g in groups]))
        # ---- match submitted groups to frame groups (multiset + timeliness + no mixing)
        pool = collections.defaultdict(list)     # (fmt, da, cpgn, data) -> [frame time...]
        for (t, fmt, da, groups) in frames:
            for (cpgn, pl) in groups:
                pool[(fmt, da, cpgn, pl)].append(t)
        acc = [sb for sb in subs if sb["r"] is True]
        for sb in sorted(acc, key=lambda x: x["t"]):
            key = (sb["fmt"], sb["da"], sb["cpgn"], sb["data"])
            lst = pool.get(key)
            if not lst:
                # on the bus under another destination / format?
                alt = [k for k in pool if k[2] == sb["cpgn"] and k[3] == sb["data"] and pool[k]]
                if alt:
                    V("group-mixed", "group (cpgn 0x%05X, %d bytes) submitted for %s/dest %d left in a frame for %s/dest %d" %
                      (sb["cpgn"], len(sb["data"]), sb["fmt"], sb["da"], alt[0][0], alt[0][1]), sb["fmt"])
                else:
                    V("group-never-sent", "group (cpgn 0x%05X, %d bytes, limit %g s, %s) submitted at t=%.4f never appeared on the "
                      "bus within %.1f s" % (sb["cpgn"], len(sb["data"]), sb["limit"], sb["ctx"], sb["t"] - 1000, 5.5),
                      "%s|%s" % (sb["fmt"], "limit" if sb["limit"] else "immediate"))
                continue
            tf = lst.pop(0)
            # (a call whose thread was held inside send_pgn is judged from its return)
            if tf > (sb["t_ret"] if p.get("app_thread") else sb["t"]) + sb["limit"] + L + 1e-9:
                V("group-late", "group (cpgn 0x%05X, %d bytes) submitted at t=%.6f with time_limit %g s was on the bus at t=%.6f "
                  "(%.6f s late)" % (sb["cpgn"], len(sb["data"]), sb["t"] - 1000, sb["limit"], tf - 1000, tf - sb["t"] - sb["limit"]),
                  "%s|%s" % (sb["fmt"], sb["ctx"]))
            if tf < sb["t"] - 1e-9:
                V("group-before-submission", "matching group on the bus before it was submitted", sb["fmt"])
        left = [(k, v) for k, v in pool.items() if v]
        if left and not viol:
            k, v = left[0]
            V("group-invented", "frame group (cpgn 0x%05X, %d bytes, %s dest %d) x%d on the bus was never submitted (or sent twice)"
              % (k[2], len(k[3]), k[0], k[1], len(v)), k[0])
        # ---- deliveries (FEFF only)
        exp = {l: collections.Counter() for l in deliv}
        for sb in acc:
            if sb["fmt"] != "FEFF":
                continue
            item = (sb["cpgn"], SA_S, sb["data"])
            if sb["da"] == 255:
                for l in exp:
                    exp[l][item] += 1
            elif sb["da"] == DA1:
                exp["R1.ca"][item] += 1
            else:
                exp["R2.ca"][item] += 1
                exp["R2.ecu"][item] += 1
        for l in deliv:
            got = collections.Counter(deliv[l])
            missing, extra = exp[l] - got, got - exp[l]
            if missing:
                (pg, sa, d), n = list(missing.items())[0]
                near = [g for g in extra if g[2] == d]
                V("delivery-missing" if not near else "delivery-wrong-pgn",
                  "listener %s: group pgn 0x%05X (%d bytes) x%d not delivered%s" %
                  (l, pg, len(d), n, (" - delivered as pgn 0x%05X instead" % near[0][0]) if near else ""), "FEFF")
            elif extra:
                (pg, sa, d), n = list(extra.items())[0]
                V("delivery-extra", "listener %s: unexpected delivery pgn 0x%05X sa %d (%d bytes) x%d" % (l, pg, sa, len(d or b""), n), "FEFF")
        labels = []
        if packed_multi:
            labels.append("packed>=2")
        if any(c["limit_ms"] for c in p["calls"]):
            labels.append("time-limit")
        if any(c["fmt"] == "FBFF" for c in p["calls"]):
            labels.append("FBFF")
        if any(c["ctx"] == "timer" for c in p["calls"]):
            labels.append("from-timer")
        return {"violations": viol, "labels": labels, "app_lines": app_lines,
                "nontrivial": packed_multi or any(c["limit_ms"] for c in p["calls"]),
                "sample": {"calls": [{k: c[k] for k in ("t_ms", "n", "kind", "limit_ms", "fmt", "ctx")} for c in p["calls"][:8]],
                           "frames": len(frames)}}


CHECK = C11()
