"""C09 - originator obeys flow control and pacing; responder never over-grants.

Monitor over the time-stamped bus log of generated sessions: the stack as originator against
the reference responder (grants, holds) and against a second real stack; the stack as responder
against the reference originator (RTS limits 1..255); configured BAM / RTS-CTS intervals.
DESIGN.md 5/C09.
"""
import collections
from hypothesis import strategies as st

from vlib import peerscen as PS


class C09:
    ID = "C09"
    LEVEL = "exploration"
    TECHNIQUE = ("property-based testing: generated sessions against a reference peer / second stack in virtual time, "
                 "judged by a trace monitor over the time-stamped bus log (clearance, order, pacing, grants)")
    RULE = ("Hypothesis draws sessions as in C03 plus stack-vs-stack ones, with max_cmdt_packets 1..255 on both sides, "
            "minimum_tp_bam_dt_interval in {default, 10..190 ms}, minimum_tp_rts_cts_dt_interval in {None, 1..50 ms}, RTS limits "
            "1..255 (plus an enumeration of the responder-side grant boundaries: RTS limit x own maximum in {1,2,254,255} x 2/3/5/40 packets), in two cases of five another ECU object with other intervals and window was created earlier in the process, grants 1..limit and 0-3 holds from the reference responder, latencies 0..5 ms, and for J1939-22 broadcasts 0-3 further broadcast sessions of the same stack running at the same time "
            "(frame writes taking 0..2 ms); the monitor checks: no "
            "data packet outside the window the last CTS cleared (none before the first CTS, none after a hold), in-order "
            "numbering, BAM spacing >= configured/default interval and <= max(200 ms, interval)+latency, connection-mode "
            "spacing >= the configured minimum between ALL consecutive data packets of a session, every CTS count <= "
            "min(RTS limit, own maximum, remaining); non-trivial = a session with >= 2 CTS or a configured interval or a hold; "
            "distinct = distinct parameter sets")
    ASSUMPTIONS = [
        "bus-log timestamps are transmit instants; the monitor attributes a data packet to the most recent CTS on the bus "
        "(the reference responder and the stack send CTS only at window boundaries, so no data packet is in flight then)",
        "the upper BAM bound (200 ms) is judged with the stack otherwise idle",
    ]
    shrink_lists = ()

    def strategy(self, tier):
        return PS.peer_strategy(roles=("orig", "orig", "resp", "s2s"), intervals=True)

    def examples(self, tier):
        return 2500 if tier == "quick" else 200000

    def enumerate(self, tier):
        # grant boundaries of the stack as responder: RTS limit x own maximum x packet count at their extremes
        # (random draws hit "limit exactly 255 with an own maximum above the packet count" only a few times per run)
        out = []
        for dll in ("j1939-21", "j1939-22"):
            for limit in (1, 2, 254, 255):
                for own in (1, 2, 254, 255):
                    for packets in (2, 3, 5, 40):
                        out.append(PS.base_case(dll, "resp", "rts", packets, i=len(out), max_cmdt=own, peer={"limit": limit}))
        return out

    def exhaustive(self, tier):
        return False

    def simplify(self, p):
        yield dict(p, peer=dict(p["peer"], holds=[0]))
        yield dict(p, peer=dict(p["peer"], reply_lat=[0.001], dt_gap=0.001))
        for n in (9, 15, 22, 61, 121, 181):
            if (p["dll"] == "j1939-22") == (n > 60) and n < p["pl"]["n"]:
                yield dict(p, pl=dict(p["pl"], n=n))

    def run_case(self, p):
        viol = []

        def V(kind, msg, site=""):
            viol.append({"kind": kind, "msg": msg, "bucket": "C09|%s|%s" % (kind, site)})

        counters = collections.Counter()
        obs = PS.run(p)
        PS.judge_flow(p, obs, V, counters)
        labels = ["%s-%s-%s" % ("22" if p["dll"] == "j1939-22" else "21", p["role"], p["mode"])]
        nontrivial = False
        if counters["cts_seen"] >= 2 or counters["grants_checked"] >= 2:
            labels.append(">=2 CTS")
            nontrivial = True
        if counters["holds_seen"]:
            labels.append("hold")
            nontrivial = True
        if p["bam_dt"] is not None and p["mode"] == "bam":
            labels.append("bam-interval")
            nontrivial = True
        if p["rts_dt"] is not None and p["mode"] == "rts" and p["role"] != "resp":
            labels.append("rts-interval")
            nontrivial = True
        if p["mode"] == "bam" and p["role"] == "resp":
            nontrivial = False
        return {"violations": viol, "labels": labels, "nontrivial": nontrivial, "extra": dict(counters),
                "sample": {k: p[k] for k in ("dll", "role", "mode", "max_cmdt", "max_cmdt_r", "bam_dt", "rts_dt")}
                | {"size": p["pl"]["n"], "peer": {k: p["peer"][k] for k in ("grants", "holds", "limit")}}}


CHECK = C09()
