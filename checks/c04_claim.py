"""C04 - address claiming yields unique addresses; the lowest NAME keeps a contested one.

Generated: 2..4 CAs on separate stacks, adversarial NAME sets, AAC or not, preferred addresses
equal / adjacent / distinct in the immediate (0..127, 248..253) or veto (128..247-n) range, claim
instants placed before / at the edges of / inside / after the others' 250 ms veto window,
latencies in [0, 5 ms] including 0.  Oracle: validity predicate over the final state and the
bus trace (not one predicted outcome).  DESIGN.md 5/C04.
"""
import itertools
from hypothesis import strategies as st

from vlib import world as W
from vlib import simbus
from vlib import refcodec as R

OFFS = [0.0, 0.0, 0.001, 0.1, 0.249, 0.25, 0.251, 0.4, 0.75, 1.0]
DELAYS = [0.0, 0.001, 0.1, 0.5]
MASK48 = ~(1 << 48)


def _strategy():
    @st.composite
    def build(draw):
        n = draw(st.integers(2, 4))
        base = draw(st.integers(0, (1 << 63) - 1)) & MASK48
        kind = draw(st.sampled_from(["random", "lowbit", "highbit", "aaconly", "fields"]))
        bodies = []
        if kind == "random":
            bodies = draw(st.lists(st.integers(0, (1 << 63) - 1).map(lambda v: v & MASK48), min_size=n, max_size=n, unique=True))
        elif kind == "lowbit":
            bodies = [(base & ~3) | i for i in range(n)]
        elif kind == "highbit":
            bodies = [(base & ~(3 << 61)) | (i << 61) for i in range(n)]
        elif kind == "aaconly":
            bodies = [base] * 2 + [(base ^ (1 << 20)), (base ^ (1 << 40))][: n - 2]
        else:
            bits = draw(st.lists(st.sampled_from([0, 20, 21, 31, 32, 35, 40, 47, 49, 56, 60, 62]), min_size=n, max_size=n, unique=True))
            bodies = [base ^ (1 << b) for b in bits]
        perm = draw(st.permutations(list(range(n))))
        bodies = [bodies[i] for i in perm]
        aacs = [draw(st.booleans()) for _ in range(n)]
        if kind == "aaconly":
            aacs[0], aacs[1] = True, False
            if draw(st.booleans()):
                aacs[0], aacs[1] = False, True
        # distinct final NAMEs
        seen = set()
        for i in range(n):
            v = bodies[i] | (int(aacs[i]) << 63)
            while v in seen:
                bodies[i] ^= 1 << (i + 1)
                v = bodies[i] | (int(aacs[i]) << 63)
            seen.add(v)
        rng = draw(st.sampled_from(["low", "veto", "veto", "high", "mixed"]))
        layout = draw(st.sampled_from(["equal", "equal", "adjacent", "distinct", "pairs", "pairs"]))

        def pick():
            if rng == "low":
                return draw(st.integers(0, 127 - 8))
            if rng == "high":
                return draw(st.integers(248, 253 - n))      # an AAC loser walks upwards: never past 253
            if rng == "veto":
                return draw(st.integers(128, 247 - 2 * n - 2))
            return draw(st.sampled_from([0, 5, 120, 127 - 8, 128, 129, 200, 247 - 2 * n - 2, 248, 253 - n]))
        a0 = pick()
        addrs = []
        for i in range(n):
            if layout == "equal":
                addrs.append(a0)
            elif layout == "adjacent":
                addrs.append(min(253 - n, a0 + i) if a0 >= 248 else a0 + i)
            elif layout == "pairs":
                addrs.append(a0 + (i // 2))
            else:
                addrs.append(pick())
        # an AAC loser walks upwards: keep room (not above 247 for veto range; immediate ranges: below 127 / 253)
        cas = []
        latmode = draw(st.sampled_from(["mixed", "mixed", "zero", "positive"]))
        for i in range(n):
            if latmode == "zero":
                lat = [0.0]          # every reply is processed inside the sender's call
            elif latmode == "positive":
                lat = draw(st.lists(st.sampled_from(simbus.LATENCY_GRID[1:]), min_size=1, max_size=3))
            else:
                lat = draw(st.lists(st.sampled_from(simbus.LATENCY_GRID), min_size=1, max_size=3))
            cas.append({"body": bodies[i], "aac": aacs[i], "addr": min(addrs[i], 253 - n),
                        "claim_at": draw(st.sampled_from(OFFS)), "delay": draw(st.sampled_from(DELAYS)), "lat": lat})
        return {"dll": draw(st.sampled_from(["j1939-21", "j1939-21", "j1939-22"])), "cas": cas,
                "eps": draw(st.lists(st.sampled_from([0.0, 1e-6, 1e-4, 1e-3]), min_size=1, max_size=2)),
                "disp": draw(st.lists(st.sampled_from([0.0, 1e-6, 1e-4, 1e-3]), min_size=1, max_size=2))}
    return build()


def name_of(c):
    return (c["body"] & MASK48) | (int(c["aac"]) << 63)


class C04:
    ID = "C04"
    LEVEL = "exploration"
    TECHNIQUE = ("property-based testing: generated claim configurations and timings in virtual time, validity predicate over "
                 "final states and the bus trace")
    RULE = ("Hypothesis draws 2..4 CAs on separate stacks: NAME sets (random / differing only in the lowest bits / only in the "
            "top bits / only in the AAC bit / in one field bit each) in every order, AAC or not, preferred addresses equal, "
            "adjacent, pairwise equal or distinct in 0..127, 248..253 or 128..247-2n, claim instants from "
            "{0,1,100,249,250,251,400,750,1000 ms} with claim_delay {0,1,100,500 ms}, per-receiver latencies over "
            "{0,1us,...,5 ms}, wake-up lateness/dispatch up to 1 ms, on either data link layer; non-trivial = at least two CAs "
            "announced the same address on the bus (contention); distinct = distinct parameter sets")
    ASSUMPTIONS = [
        "NAMEs are pairwise distinct; preferred addresses leave room for every possible walk of an AAC loser",
        "the final state is judged at last claim instant + n*0.75 s + 2 s",
    ]
    shrink_lists = ()

    def strategy(self, tier):
        return _strategy()

    def examples(self, tier):
        return 3000 if tier == "quick" else 500000

    def enumerate(self, tier):
        # two-CA grid: all orderings x AAC x timing edges, equal preferred address in the veto range and the immediate range
        out = []
        for addr in (200, 10):
            for (aa, ab) in itertools.product((False, True), repeat=2):
                for order in (0, 1):
                    for off in (0.0, 0.001, 0.249, 0.25, 0.251, 0.75):
                        for lat in ([0.0], [0.0005], [0.005]):
                            names = [0x1000, 0x2000] if order == 0 else [0x2000, 0x1000]
                            out.append({"dll": "j1939-21", "eps": [0.0], "disp": [0.0], "cas": [
                                {"body": names[0], "aac": aa, "addr": addr, "claim_at": 0.0, "delay": 0.0, "lat": lat},
                                {"body": names[1], "aac": ab, "addr": addr, "claim_at": off, "delay": 0.0, "lat": lat}]})
        return out

    def exhaustive(self, tier):
        return False

    def run_case(self, p):
        viol = []
        n = len(p["cas"])

        def V(kind, msg, site=""):
            viol.append({"kind": kind, "msg": msg, "bucket": "C04|%s|%s" % (kind, site)})

        lat = {"s%d" % i: c["lat"] for i, c in enumerate(p["cas"])}
        w = W.World(latency=lat, wake_eps=p["eps"], dispatch=p["disp"])
        try:
            cas = []
            for i, c in enumerate(p["cas"]):
                stk = w.stack("s%d" % i, dll=p["dll"])
                ca = stk.add_ca("ca", name_of(c), c["addr"], bypass=False)
                cas.append(ca)
                t_claim = 0.6 + c["claim_at"]
                t_start = t_claim - c["delay"]
                w.at(t_start, (lambda ca=ca, d=c["delay"]: ca.start(d)))
            t_last = 0.6 + max(c["claim_at"] for c in p["cas"])
            horizon = t_last + n * 0.75 + 2.0
            w.run_until(w.t0 + horizon)
            j = W.load()
            S = j.ControllerApplication.State
            final = [(ca.state, ca.device_address) for ca in cas]
            log = list(w.bus.log)
            live = w.liveness_problems()
        finally:
            w.close()
        for k2, detail, tt in live:
            V("liveness-" + k2, "%s %r at t=%.4f" % (k2, detail, tt - 1000))
        names = [name_of(c) for c in p["cas"]]
        zero_lat = any(0.0 in c["lat"] for c in p["cas"])
        site = "lat0" if zero_lat else "lat+"
        # (a) settled
        for i, (stt, adr) in enumerate(final):
            if stt not in (S.NORMAL, S.CANNOT_CLAIM):
                V("not-settled", "CA %d is in state %r at the horizon (%.2f s after the last claim)" % (i, stt, n * 0.75 + 2.0), site)
        # claims on the bus
        claims = []     # (t, node index, sa, name)
        for e in log:
            f = R.id_fields(e.can_id)
            if f["pf"] == 0xEE and len(e.data) == 8:
                claims.append((e.t, int(e.node[1:]), f["sa"], R.name_from_bytes(e.data)))
        for (t, i, sa, nm) in claims:
            if nm != names[i]:
                V("claim-wrong-name", "CA %d announced NAME 0x%016X, its NAME is 0x%016X" % (i, nm, names[i]), site)
                break
        # (b) quiet + unique
        late = [c for c in claims if c[0] > w.t0 + horizon - 1.0]
        if late:
            V("not-quiet", "address-claim traffic still on the bus in the last second before the horizon (%d frames)" % len(late), site)
        held = {}
        for i, (stt, adr) in enumerate(final):
            if stt == S.NORMAL:
                if adr in held:
                    V("duplicate-address", "CA %d (NAME 0x%016X) and CA %d (NAME 0x%016X) are both operational on address %r"
                      % (held[adr], names[held[adr]], i, names[i], adr), site)
                held[adr] = i
                if adr is None or adr >= 254:
                    V("normal-without-address", "CA %d is NORMAL but reports address %r" % (i, adr), site)
        # (c) lowest NAME keeps a contested address
        announcers = {}
        for (t, i, sa, nm) in claims:
            if sa < 254:
                announcers.setdefault(sa, set()).add(i)
        contention = False
        for sa, who in announcers.items():
            if len(who) < 2:
                continue
            contention = True
            winner = min(who, key=lambda i: names[i])
            stt, adr = final[winner]
            if not (stt == S.NORMAL and adr == sa):
                holder = held.get(sa)
                V("lowest-name-lost", "address %d was announced by CAs %s; the lowest NAME is CA %d (0x%016X) but it ends in state %r "
                  "on address %r; the address is held by %s" % (sa, sorted(who), winner, names[winner], stt, adr,
                                                                 "nobody" if holder is None else "CA %d" % holder), site)
        # (d) losers
        for i, c in enumerate(p["cas"]):
            stt, adr = final[i]
            lost = any(i in who and min(who, key=lambda k: names[k]) != i for sa, who in announcers.items() if len(who) >= 2)
            if not lost:
                if stt == S.CANNOT_CLAIM:
                    V("cannot-claim-without-loss", "CA %d ends in CANNOT_CLAIM although it never lost a contest" % i, site)
                continue
            if not c["aac"]:
                if stt != S.CANNOT_CLAIM:
                    V("fixed-loser-not-cannot-claim", "CA %d (not arbitrary address capable) lost a contest but ends in state %r on "
                      "address %r" % (i, stt, adr), site)
                elif not any(ci == i and sa == 254 and nm == names[i] for (t, ci, sa, nm) in claims):
                    V("no-cannot-claim-frame", "CA %d lost and is CANNOT_CLAIM but never announced cannot-claim from address 254" % i, site)
            else:
                if stt != S.NORMAL:
                    V("aac-loser-not-operational", "CA %d (arbitrary address capable) lost a contest and ends in state %r" % (i, stt), site)
        labels = ["n=%d" % n, p["dll"][-2:]]
        if contention:
            labels.append("contention")
        if zero_lat:
            labels.append("zero-latency")
        if any(c["aac"] for c in p["cas"]):
            labels.append("aac")
        return {"violations": viol, "labels": labels, "nontrivial": contention,
                "sample": {"cas": [{"name": "0x%016X" % name_of(c), "aac": c["aac"], "addr": c["addr"], "claim_at": c["claim_at"],
                                    "delay": c["delay"], "lat": c["lat"]} for c in p["cas"]]}}


CHECK = C04()
