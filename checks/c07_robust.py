"""C07 - no sequence of received frames can stop, stall or permanently clog the stack.

Generated: sequences of 1..60 frames over a protocol-aware alphabet (TP.CM/TP.DT, FD.TP.CM/DT,
multi-PG, request, address claim, ordinary; to local CA / local integer listener / foreign /
global; from a peer, a third node, the stack's own address, 254, 255; every control byte,
sessions 0..15, boundary size/packet/sequence fields, data lengths 0..8 / 0..64) with gaps from 0
to beyond each timeout, while 0-3 own transfers to a conforming reference peer are in flight.
Oracle: background thread alive and never spinning; a probe timer fires on time afterwards;
all sessions released within the longest timeout; a well-formed transfer in each role then
completes.  DESIGN.md 5/C07.
"""
import collections
from hypothesis import strategies as st

from vlib import world as W
from vlib import simbus
from vlib import refcodec as R
from vlib.refpeer import RefPeer

SA_S, SA_L, SA_P, SA_X, SA_F = 0x30, 0x31, 0x90, 0x55, 0x77
PGN_OWN = 0xB000
B8 = [0, 1, 2, 3, 7, 8, 9, 16, 17, 19, 32, 254, 255]
B16 = [0, 1, 8, 9, 14, 15, 21, 1785, 1786, 0xFFFF]
B24 = [0, 1, 60, 61, 120, 121, 255, 0xFFFF, 0xFFFFFF]
GAPS = [0.0, 0.0, 0.0, 0.001, 0.001, 0.04, 0.2, 0.5, 0.76, 1.06, 1.26, 3.1]


def _frames(fd_stack):
    da = st.sampled_from([SA_S, SA_S, SA_L, SA_F, 255])
    sa = st.sampled_from([SA_P, SA_P, SA_X, SA_X, SA_S, 254, 255])
    b8 = st.one_of(st.sampled_from(B8), st.integers(0, 255))
    b16 = st.one_of(st.sampled_from(B16), st.integers(0, 0xFFFF))
    b24 = st.one_of(st.sampled_from(B24), st.integers(0, 0xFFFFFF))
    pgn = st.one_of(st.just(PGN_OWN), st.just(0xC100), st.integers(0, 0x3FFFF))
    gap = st.sampled_from(GAPS)
    dlen8 = st.sampled_from([8, 8, 8, 8, 0, 1, 3, 7])

    def mk(g, prio, pf, ps, s, data, fd=False):
        return {"gap": g, "id": R.mk_id(prio, 0, pf, ps, s), "data": bytes(data).hex(), "fd": fd}

    cm = st.builds(lambda g, d, s, c, size, pk, b4, pg, ln: mk(g, 7, 0xEC, d, s, ([c, size & 0xFF, size >> 8, pk, b4] + R.pgn_le(pg))[:ln]),
                   gap, da, sa, st.one_of(st.sampled_from([16, 17, 19, 32, 255]), st.integers(0, 255)), b16, b8, b8, pgn, dlen8)
    cts = st.builds(lambda g, s, n, nx, pg: mk(g, 7, 0xEC, SA_S, s, R.tp_cts(n, nx, pg)),
                    gap, sa, st.sampled_from([0, 1, 2, 3, 255]), st.sampled_from([0, 1, 2, 3, 4, 255]), pgn)
    dt = st.builds(lambda g, d, s, seq, body, ln: mk(g, 7, 0xEB, d, s, ([seq] + body)[:ln]),
                   gap, da, sa, b8, st.lists(st.integers(0, 255), min_size=7, max_size=7), dlen8)
    fdlen = st.sampled_from([12, 12, 12, 12, 0, 3, 8, 11, 16, 64])
    fdcm = st.builds(lambda g, d, s, c, sess, f1, f2, b7, b8_, pg, ln: mk(g, 7, 0x4D, d, s, (R.fd_cm(c, sess, f1, f2, b7, b8_, pg) + [0] * 52)[:ln], True),
                     gap, da, sa, st.one_of(st.sampled_from([0, 1, 2, 3, 4, 15]), st.integers(0, 15)), st.integers(0, 15), b24, b24, b8, b8, pgn, fdlen)
    fddt = st.builds(lambda g, d, s, dtfi, sess, seg, n, fill: mk(g, 7, 0x4E, d, s, [dtfi | (sess << 4)] + R.le24(seg) + [fill] * n, True),
                     gap, da, sa, st.sampled_from([0, 0, 0, 1, 15]), st.integers(0, 15), b24, st.sampled_from([0, 1, 4, 8, 28, 44, 60]), st.integers(0, 255))
    mpg = st.builds(lambda g, d, s, hdrs, ln: mk(g, 6, 0x25, d, s, (sum([[h[0], h[1], h[2], h[3]] + [0x5A] * h[4] for h in hdrs], []) + [0] * 64)[:ln], True),
                    gap, da, sa, st.lists(st.tuples(st.integers(0, 255), st.integers(0, 255), st.integers(0, 255),
                                                    st.sampled_from([0, 1, 8, 60, 61, 255]), st.integers(0, 20)), min_size=1, max_size=4),
                    st.sampled_from([0, 3, 4, 5, 8, 12, 16, 24, 48, 64]))
    req = st.builds(lambda g, d, s, pg, ln: mk(g, 6, 0xEA, d, s, (R.pgn_le(pg) + [0xFF] * 5)[:ln]), gap, da, sa,
                    st.one_of(st.just(0xEE00), pgn), st.sampled_from([3, 3, 0, 2, 8]))
    claim = st.builds(lambda g, s, nm, ln: mk(g, 6, 0xEE, 255, s, nm[:ln]), gap, st.sampled_from([SA_S, SA_S, SA_L, SA_X, 254]),
                      st.lists(st.integers(0, 255), min_size=8, max_size=8), st.sampled_from([8, 8, 0, 7]))
    other = st.builds(lambda g, pf, ps, s, body: mk(g, 6, pf, ps, s, body), gap, st.integers(0, 255), st.sampled_from([SA_S, 255, 0, 0xCA]),
                      sa, st.lists(st.integers(0, 255), max_size=8))
    # (255: the "peer" of the stack's own broadcast sessions - an illegal source address that matches them)
    psrc = st.sampled_from([SA_P, SA_P, SA_X, SA_X, 255])
    # frames aimed at the stack's own live sessions (from the peer it talks to, or the node that never answers)
    cts = st.builds(lambda g, s, n, nx, pg: mk(g, 7, 0xEC, SA_S, s, R.tp_cts(n, nx, pg)),
                    gap, psrc, st.sampled_from([0, 1, 2, 3, 255]), st.sampled_from([0, 1, 2, 3, 4, 5, 255]), st.just(PGN_OWN))
    ack = st.builds(lambda g, s, c, size, pk: mk(g, 7, 0xEC, SA_S, s, [c, size & 0xFF, size >> 8, pk, 0xFF] + R.pgn_le(PGN_OWN)),
                    gap, psrc, st.sampled_from([19, 255]), b16, b8)
    fsess = st.sampled_from([0, 0, 1, 2])
    fcts = st.builds(lambda g, s, sess, nx, n: mk(g, 7, 0x4D, SA_S, s, R.fd_cts(sess, nx, n, PGN_OWN), True),
                     gap, psrc, fsess, st.one_of(st.sampled_from([0, 1, 2, 3, 4, 5, 6, 7, 8, 255, 0xFFFFFF])), st.sampled_from([0, 1, 2, 3, 255]))
    fack = st.builds(lambda g, s, sess, c, f1, f2: mk(g, 7, 0x4D, SA_S, s, R.fd_cm(c, sess, f1, f2, 0xFF, 0xFF, PGN_OWN), True),
                     gap, psrc, fsess, st.sampled_from([3, 15, 2]), b24, b24)
    if fd_stack:
        return st.one_of(fdcm, fdcm, fcts, fcts, fack, fddt, fddt, mpg, cm, req, claim, other)
    return st.one_of(cm, cm, cts, cts, ack, dt, dt, fdcm, req, claim, other)


def _strategy(dll):
    fd = dll == "j1939-22"
    # "in_hold": the conforming peer sends a complete RTS/CTS transfer TO the stack but its last frame (last data packet /
    # end-of-message status) is late: it is released when the stack writes its receive time-out abort (see reactions)
    own = st.builds(lambda t, kind, n: {"t": t, "kind": kind, "n": n}, st.sampled_from([0.0, 0.0, 0.001, 0.05, 0.3, 1.0]),
                    st.sampled_from(["rts", "rts", "rts_x", "bam", "in_hold"]), st.integers(61, 400) if fd else st.integers(9, 80))
    # (a tuple mapped to a dict rather than fixed_dictionaries: hypothesis.fuzz_one_input rejects every byte string
    # for fixed_dictionaries with more than three keys in this Hypothesis version - see DESIGN.md 8)
    # reactive injection: when the stack itself transmits its n-th frame of a class (its own time-out abort, a data frame, an
    # RTS/BAM announcement, any TP frame), the addressed node - or a node claiming to be it - answers `delay` later with an
    # abort / CTS / end-of-message acknowledge for that very session: the answer arrives while the stack is still writing
    # the frame (tx_time), right after it, or a little later
    react = st.builds(lambda cls, nth, delay, kind, n, nx: {"cls": cls, "nth": nth, "delay": delay, "kind": kind, "n": n, "nx": nx},
                      st.sampled_from(["abort", "abort", "dt", "dt", "rts", "cm", "any"]), st.sampled_from([1, 1, 1, 2, 3, 4]),
                      st.sampled_from([0.0, 0.0, 0.0001, 0.0003, 0.001, 0.003]), st.sampled_from(["abort", "abort", "cts", "ack"]),
                      st.sampled_from([0, 1, 2, 255]), st.sampled_from([0, 1, 2, 3, 255]))
    keys = ("frames", "own", "max_cmdt", "grants", "eps", "reply_lat", "tx_time", "reacts")
    # structured "race" cases: one or two own transfers, slow frame writes, and one or two reactions that hit the stack while
    # it is writing a frame of that very session (the general strategy reaches this shape too rarely)
    race = st.tuples(
        st.lists(_frames(fd), min_size=1, max_size=3),
        st.lists(st.builds(lambda t, kind, n: {"t": t, "kind": kind, "n": n}, st.sampled_from([0.0, 0.001, 0.05]),
                           st.sampled_from(["rts", "rts", "rts_x", "rts_x", "bam", "in_hold", "in_hold"]), st.integers(61, 300) if fd else st.integers(9, 60)),
                 min_size=1, max_size=2),
        st.sampled_from([1, 2, 255]),
        st.lists(st.sampled_from([1, 2, 255]), min_size=1, max_size=2),
        st.lists(st.sampled_from([0.0, 1e-5]), min_size=1, max_size=2),
        st.sampled_from([[0.001, 0.003], [0.02]]),
        st.sampled_from([0.0005, 0.002, 0.002]),
        st.lists(st.builds(lambda cls, nth, delay, kind, n, nx: {"cls": cls, "nth": nth, "delay": delay, "kind": kind, "n": n, "nx": nx},
                           st.sampled_from(["abort", "abort", "dt", "rts", "cm"]), st.sampled_from([1, 1, 2, 3]),
                           st.sampled_from([0.0, 0.0001, 0.0003]), st.sampled_from(["abort", "abort", "cts", "ack"]),
                           st.sampled_from([0, 1, 2, 255]), st.sampled_from([0, 1, 2, 3, 255])), min_size=1, max_size=2),
    ).map(lambda t: dict(zip(keys, t), dll=dll))
    general = st.tuples(
        st.lists(_frames(fd), min_size=1, max_size=60),
        st.lists(own, max_size=3),
        st.sampled_from([1, 2, 255]),
        st.lists(st.sampled_from([1, 2, 255]), min_size=1, max_size=2),
        st.lists(st.sampled_from([0.0, 1e-5, 1e-3]), min_size=1, max_size=2),
        st.sampled_from([[0.001, 0.003], [0.02], [0.05, 0.1]]),
        st.sampled_from([0.0, 0.0, 0.0005, 0.002]),          # time a send call of the job thread takes (driver write)
        st.lists(react, max_size=2),
    ).map(lambda t: dict(zip(keys, t), dll=dll))
    return st.one_of(general, general, general, race)


class C07:
    ID = "C07"
    LEVEL = "exploration"
    TECHNIQUE = ("grammar-based fuzzing with Hypothesis: protocol-aware frame sequences injected in virtual time while own "
                 "transfers run; liveness (thread alive, spin watchdog), timer, release and follow-up oracles")
    RULE = ("Hypothesis draws a sequence of 1..60 frames from a protocol-aware alphabet (see module docstring) with gaps "
            "{0,1 ms,40 ms,0.2,0.5,0.76,1.06,1.26,3.1 s} and 0-3 own transfers to a conforming reference peer, a node that never answers or everybody (frame writes of the stack "
            "take 0 / 0.5 / 2 ms), plus 0-2 REACTIONS: when the stack transmits its n-th abort / data frame / announcement, the "
            "addressed node (255 for broadcasts) answers 0..3 ms later with an abort, CTS or end-of-message acknowledge for that "
            "very session, i.e. while the stack is still writing the frame or right after; one case in four is a structured "
            "'race' of this shape; after the traffic "
            "plus 3.5 s the oracle requires: job thread alive and no busy spin at any point, a probe timer fires within its "
            "period + scheduling latency, session tables empty (when readable), every pair / all 8+4 FD sessions accept a send, "
            "and one well-formed transfer in each role (stack->peer RTS/CTS and BAM, peer->stack RTS/CTS and BAM) completes intact; "
            "non-trivial = the sequence opened at least one session in the stack or hit a live one; distinct = distinct sequences")
    ASSUMPTIONS = [
        "frames are fed through the bus listener (exceptions from frame handling are contained there and only counted)",
        "the busy-spin watchdog flags > 50000 clock reads by the job thread without virtual time advancing "
        "(largest legitimate count is about 255 packets x 12 reads per pass)",
        "own transfers hit by spoofed frames may fail; only liveness, release and later usability are judged",
    ]
    shrink_lists = ("frames", "own", "reacts")
    shrink_min = {"frames": 1}

    def strategy(self, tier):
        return st.one_of(_strategy("j1939-21"), _strategy("j1939-22"))

    def examples(self, tier):
        return 3000 if tier == "quick" else 300000

    def extra_engine(self, tier, seed, out):
        """Second engine: coverage-guided fuzzing (atheris / libFuzzer) of the same property function through
        hypothesis.fuzz_one_input, several independent campaigns in parallel (tools/fuzz_c07.py)."""
        import os
        import json
        import shutil
        import subprocess
        import tempfile
        from vlib import runner
        here = os.path.dirname(os.path.dirname(os.path.abspath(__file__)))
        deps = os.path.join(here, ".deps")
        probe = subprocess.run([os.sys.executable, "-c", "import sys; sys.path.insert(0, %r); import atheris" % deps],
                               capture_output=True, text=True)
        if probe.returncode != 0:
            return {"engine": "atheris", "available": False, "evaluations": 0,
                    "note": "atheris not importable (run MANIFEST.setup_cmd); the Hypothesis engine alone decided this run"}
        ncamp, runs = (8, 250) if tier == "quick" else (16, 20000)
        work = tempfile.mkdtemp(prefix="c07fuzz_", dir=out if os.path.isdir(out) else None)

        def one(i):
            r = subprocess.run([os.sys.executable, os.path.join(here, "tools", "fuzz_c07.py"), os.path.join(work, "c%d" % i),
                                str(runner.crc(seed, "C07-fuzz", i)), str(runs)], capture_output=True, text=True)
            try:
                return json.loads(r.stdout.strip().splitlines()[-1])
            except Exception:
                return {"error": (r.stdout + r.stderr)[-400:]}
        try:
            results = runner.run_tasks(one, list(range(ncamp)))
        finally:
            shutil.rmtree(work, ignore_errors=True)
        failures = []
        execs = cov = nontriv = 0
        errors = []
        for r in results:
            if not r or "error" in r or "harness_error" in r:
                errors.append((r or {}).get("error") or (r or {}).get("harness_error") or "no result")
                continue
            if r.get("rc") not in (0, None) and not r.get("crashes"):
                errors.append("campaign exit code %r: %s" % (r.get("rc"), r.get("stderr_tail", "")[-200:]))
            execs += r.get("execs") or 0
            cov = max(cov, r.get("cov") or 0)
            nontriv += r.get("nontrivial") or 0
            for c in r.get("crashes", []):
                failures.append((c["violation"]["bucket"], c["params"], c["violation"]))
        info = {"engine": "atheris 3.x (libFuzzer) via hypothesis.fuzz_one_input, instrumented package j1939", "available": True,
                "campaigns": ncamp, "runs_per_campaign": runs, "evaluations": execs, "max_edges_covered": cov,
                "nontrivial_executions": nontriv, "failures": failures}
        if errors:
            info["campaign_errors"] = errors[:3]
        return info

    def enumerate(self, tier):
        return []

    def exhaustive(self, tier):
        return False

    def run_case(self, p):
        fd = p["dll"] == "j1939-22"
        viol = []

        def V(kind, msg, site=""):
            viol.append({"kind": kind, "msg": msg, "bucket": "C07|%s|%s|%s" % (kind, "22" if fd else "21", site)})

        L = max(p["eps"]) + 1e-5 + 2e-6
        w = W.World(latency={"S": [0.0002, 0.0005], "P": [0.0005], "X": [0.001]}, wake_eps=p["eps"], dispatch=[0.0, 1e-5])
        opened = False
        try:
            s = w.stack("S", dll=p["dll"], max_cmdt=p["max_cmdt"], tx_time=p.get("tx_time", 0.0))
            s.add_ca("s", 0, SA_S)      # lowest NAME: no injected claim can take the address away
            s.listen_ca("s")
            s.listen_ecu("L", SA_L)
            peer = RefPeer(w.bus, "P", SA_P, fd=fd, grants=p["grants"], reply_lat=p.get("reply_lat", [0.001, 0.003]))
            raw = simbus.RawNode(w.bus, "X")
            seg = 60 if fd else 7
            t = 0.05
            peak = [0]

            def inject(fr):
                def go():
                    raw.send(fr["id"], bytes.fromhex(fr["data"]), ext=True, fd=fr["fd"])
                return go

            def sample():
                ps = s.peek_sessions()
                if ps is not None:
                    peak[0] = max(peak[0], ps[0] + ps[1])

            # reactive injection (see _strategy)
            seen = collections.Counter()
            reacts = [dict(r) for r in p.get("reacts", [])]

            def tap(e):
                if e.node != "S" or not reacts:
                    return
                f = R.id_fields(e.can_id)
                cm_pf, dt_pf = (R.FD_CM_PF, R.FD_DT_PF) if fd else (R.TP_CM_PF, R.TP_DT_PF)
                if f["pf"] not in (cm_pf, dt_pf) or len(e.data) < 1:
                    return
                ctrl = ((e.data[0] & 0xF) if fd else e.data[0]) if f["pf"] == cm_pf else None
                classes = ["any"]
                if f["pf"] == dt_pf:
                    classes.append("dt")
                else:
                    classes.append("cm")
                    if ctrl == (R.FD_ABORT if fd else R.ABORT):
                        classes.append("abort")
                    if ctrl in ((R.FD_RTS, R.FD_BAM) if fd else (R.RTS, R.BAM)):
                        classes.append("rts")
                for c in classes:
                    seen[c] += 1
                if "abort" in classes and f["ps"] == SA_P:
                    # the stack gives an inbound session of the conforming peer up: the peer's late last frame was already on
                    # its way and arrives 0.1-0.6 ms later (while the abort is still being written when writes take time)
                    for ss in held:
                        if ss.get("held") and not ss.get("released"):
                            w.sim.schedule(w.sim.now + 0.0001, (lambda ss=ss: peer.release(ss)))
                for r in reacts:
                    if r.get("done") or r["cls"] not in classes or seen[r["cls"]] != r["nth"]:
                        continue
                    r["done"] = True
                    da = f["ps"]
                    src = da if da != 255 else 255
                    sess = (e.data[0] >> 4) if fd else 0
                    pg = R.pgn_from_le(e.data[-3:]) if (f["pf"] == cm_pf and len(e.data) >= 8) else PGN_OWN
                    if fd:
                        body = {"abort": R.fd_abort(sess, 3, pg), "cts": R.fd_cts(sess, r["nx"], r["n"], pg),
                                "ack": R.fd_eoma(sess, 100, 2, pg)}[r["kind"]]
                        pf = R.FD_CM_PF
                    else:
                        body = {"abort": R.tp_abort(3, pg), "cts": R.tp_cts(r["n"], r["nx"], pg),
                                "ack": R.tp_eom_ack(30, 5, pg)}[r["kind"]]
                        pf = R.TP_CM_PF
                    cid = R.mk_id(7, 0, pf, SA_S, src)
                    w.sim.schedule(w.sim.now + r["delay"], (lambda cid=cid, body=body: raw.send(cid, bytes(body), ext=True, fd=fd)))
            w.bus.taps.append(tap)

            for fr in p["frames"]:
                t += fr["gap"]
                w.at(t, inject(fr))
                w.at(t + 0.0015, sample)
            held = []
            for o in p["own"]:
                def own(o=o):
                    d = W.make_payload({"n": o["n"], "cls": "arith", "a": 3, "b": 5})
                    if o["kind"] == "in_hold":
                        ss = peer.originate_rts(SA_S, 0xC300, bytes(d), limit=255, dt_gap=0.001, session=len(held) & 7)
                        ss["hold_last"] = True
                        held.append(ss)
                        return
                    try:
                        s.cas["s"].send_pgn(0, PGN_OWN >> 8, {"rts": SA_P, "rts_x": SA_X}.get(o["kind"], 255), 6, list(d))
                    except Exception as e:  # noqa
                        w.sim.observe("own-send-raised", repr(e)[:100])
                w.at(0.05 + o["t"], own)
            # (c) release: judged at the standard's longest timeout after the last activity the traffic can cause
            #     (J1939-21: T2 = T3 = 1.25 s; J1939-22: T5 = 3 s), BEFORE anything else wakes the background thread
            t_max = 3.0 if fd else 1.25
            own_end = 0.0
            for o in p["own"]:
                pk = -(-o["n"] // seg)
                dur = {"bam": (pk + 2) * ((0.011 if fd else 0.051) + p.get("tx_time", 0.0)), "rts_x": 0.0,
                       "in_hold": (pk + 2) * (0.004 + 2 * p.get("tx_time", 0.0))}.get(
                    o["kind"], (pk + 2) * (max(p.get("reply_lat", [0.003])) + 0.003 + 2 * p.get("tx_time", 0.0)))
                own_end = max(own_end, 0.05 + o["t"] + dur)
            t_rel = max(t, own_end) + t_max + 0.3
            w.run_until(w.t0 + t_rel)
            # (the traffic may make the stack transmit later than the scripted end - e.g. a hold CTS postpones its data by
            # up to 1.05 s: the timeout counts from the last frame on the bus)
            for _ in range(20):
                last = (w.bus.log[-1].t - w.t0) if w.bus.log else 0.0
                if last + t_max + 0.3 <= t_rel + 1e-9:
                    break
                t_rel = last + t_max + 0.3
                w.run_until(w.t0 + t_rel)
            tables_rel = s.peek_sessions()
            t_end = max(t + 1.0 + 3.5, t_rel)
            w.run_until(w.t0 + t_end)
            n_swallowed = len(s.swallowed)
            del reacts[:]             # the follow-up traffic is well-formed: nobody interferes any more
            # (b) probe timer
            fired = []
            t_reg = w.sim.now
            try:
                s.ecu.add_timer(0.05, lambda c: (fired.append(w.sim.now), False)[1])
            except Exception as e:  # noqa
                V("add-timer-raised", repr(e)[:120])
            w.run_for(0.05 + L + 0.0005)
            if not fired and not w.liveness_problems():
                V("timer-late", "probe add_timer(0.05) registered %.3f s after the traffic did not fire within 50 ms + %.3g s"
                  % (t_reg - w.t0 - t, L + 0.0005))
            # (c) release
            tables = s.peek_sessions()
            if tables_rel is not None and any(tables_rel):
                V("session-not-released", "session tables (rcv,snd,mpg)=%r still occupied %.2f s after the last frame / own transfer "
                  "(longest timeout %.2f s + 0.3 s)" % (tables_rel, t_rel - max(t, own_end), t_max), "at-timeout")
            elif tables is not None and any(tables):
                V("session-not-released", "session tables (rcv,snd,mpg)=%r still occupied 4.5 s after the last frame" % (tables,))
            # (c) behavioural + (d) follow-up in each role
            peer.messages.clear()
            peer.reply_lat = [0.001, 0.003]
            nd = len(s.deliveries)
            follow = []
            if fd:
                for i in range(8):
                    d = bytes(W.make_payload({"n": 70 + i, "cls": "arith", "a": 40 + i, "b": 3}))
                    follow.append(("rts", d, self._send(s, SA_P, d)))
                for i in range(4):
                    d = bytes(W.make_payload({"n": 90 + i, "cls": "arith", "a": 80 + i, "b": 7}))
                    follow.append(("bam", d, self._send(s, 255, d)))
            else:
                d = bytes(W.make_payload({"n": 30, "cls": "arith", "a": 41, "b": 3}))
                follow.append(("rts", d, self._send(s, SA_P, d)))
                d = bytes(W.make_payload({"n": 23, "cls": "arith", "a": 81, "b": 7}))
                follow.append(("bam", d, self._send(s, 255, d)))
            in1 = bytes(W.make_payload({"n": 3 * seg + 2, "cls": "arith", "a": 9, "b": 11}))
            in2 = bytes(W.make_payload({"n": 2 * seg + 1, "cls": "arith", "a": 19, "b": 13}))
            peer.originate_rts(SA_S, 0xC200, in1, limit=255, dt_gap=0.001, session=5)
            peer.originate_bam(0xFE33, in2, gap=0.05 if not fd else 0.01, session=2)
            w.run_for(1.5)
            for kind, d, r in follow:
                if r is not True:
                    V("followup-refused", "after the traffic a well-formed %s send_pgn returned %r" % (kind, r), kind)
                    break
                if sum(1 for m in peer.messages if m[4] == d) != 1:
                    V("followup-not-delivered", "after the traffic a well-formed %s transfer from the stack was decoded %d times "
                      "by the reference peer" % (kind, sum(1 for m in peer.messages if m[4] == d)), kind)
                    break
            got = [(x[3], x[4], x[5]) for x in s.deliveries[nd:] if x[1] == "s"]
            if (0xC200, SA_P, in1) not in got:
                V("followup-inbound-rts-lost", "a well-formed RTS/CTS transfer from the reference peer was not delivered "
                  "(%d deliveries)" % len(got))
            if (0xFE33, SA_P, in2) not in got:
                V("followup-inbound-bam-lost", "a well-formed BAM from the reference peer was not delivered (%d deliveries)" % len(got))
            w.run_for(3.5 if fd else 0.1)
            for k2, detail, tt in w.liveness_problems():
                V("liveness-" + k2, "%s %r at t=%.4f" % (k2, detail, tt - 1000))
            if not s.alive() and not w.liveness_problems():
                V("liveness-thread-dead", "job thread dead: %r" % (s.dead_threads(),))
            if s.notify_exc:
                V("exception-escaped-listener", "an exception from frame handling escaped the bus listener (a python-can "
                  "Notifier thread would die): %s" % (s.notify_exc[0][1],))
            opened = peak[0] > 0
        finally:
            w.close()
        labels = ["22" if fd else "21", "own=%d" % len(p["own"])]
        if opened:
            labels.append("session-opened")
        if n_swallowed:
            labels.append("exception-contained")
        if any(fr["gap"] >= 0.76 for fr in p["frames"]):
            labels.append("gap>=T1")
        return {"violations": viol, "labels": labels, "nontrivial": opened, "extra": {"exceptions_contained": n_swallowed},
                "sample": {"dll": p["dll"], "n_frames": len(p["frames"]), "own": p["own"],
                           "first_frames": [{"gap": f["gap"], "id": "0x%08X" % f["id"], "data": f["data"][:24]} for f in p["frames"][:4]]}}

    @staticmethod
    def _send(s, da, d):
        try:
            return s.cas["s"].send_pgn(0, 0xB1, da, 6, list(d))
        except Exception as e:  # noqa
            return "EXC:%s:%s" % (type(e).__name__, str(e)[:80])


CHECK = C07()
