"""C15 - identifier and NAME codecs are exact inverses on their whole domain.

Pure functions; oracle = vlib/refcodec arithmetic (written from the SAE bit layouts).
Finite spaces are enumerated (all 2^18 PGN values in both tiers, all 2^29 identifiers in the
thorough tier, a seed-dependent 2^19 stride sample in the quick tier); the 2^64 NAME space is
covered by exhaustive per-field sweeps, single bits, boundary tuples and Hypothesis draws.
"""
import itertools
from hypothesis import strategies as st

from vlib import world as W
from vlib import refcodec as R

ONES64 = (1 << 64) - 1


def _mods():
    j = W.load()
    return j.MessageId, j.ParameterGroupNumber, j.Name


def check_ids(xs):
    """Returns (n, first failure or None)."""
    MessageId, PGN, _ = _mods()
    n = 0
    mr, gr = MessageId(can_id=0), PGN()        # objects that are re-used: re-assigned after they have been read
    for x in xs:
        n += 1
        if n % 4 == 0:
            _ = mr.can_id, gr.value
            mr.can_id = x
            if mr.can_id != x or mr.priority != (x >> 26) & 7 or mr.parameter_group_number != (x >> 8) & 0x3FFFF or mr.source_address != x & 0xFF:
                return n, ("id-reassigned", "a MessageId object re-assigned with can_id = 0x%08X reads back 0x%08X (%r/%r/%r)"
                           % (x, mr.can_id, mr.priority, mr.parameter_group_number, mr.source_address))
            mr.priority = (mr.priority + 1) & 7
            mr.source_address = (mr.source_address + 1) & 0xFF
            want = (x & 0x03FFFF00) | (((x >> 26) + 1) & 7) << 26 | ((x + 1) & 0xFF)
            if mr.can_id != want:
                return n, ("id-field-assigned", "after priority / source_address were assigned on a MessageId parsed from 0x%08X its "
                           "can_id is 0x%08X, expected 0x%08X" % (x, mr.can_id, want))
            gr.from_message_id(MessageId(can_id=x))
            _ = gr.value
            gr.pdu_specific = (gr.pdu_specific + 1) & 0xFF
            gr.data_page = gr.data_page ^ 1
            wantg = ((((x >> 24) & 1) ^ 1) << 16) | (((x >> 16) & 0xFF) << 8) | (((x >> 8) + 1) & 0xFF)
            if gr.value != wantg:
                return n, ("pgn-field-assigned", "after pdu_specific / data_page were assigned on a PGN filled from id 0x%08X its value "
                           "is 0x%05X, expected 0x%05X" % (x, gr.value, wantg))
        m = MessageId(can_id=x)
        p, g18, sa = (x >> 26) & 7, (x >> 8) & 0x3FFFF, x & 0xFF
        if m.priority != p or m.parameter_group_number != g18 or m.source_address != sa:
            return n, ("id-parse", "MessageId(can_id=0x%08X) -> priority=%r pgn=%r sa=%r, reference %d/0x%05X/%d"
                       % (x, m.priority, m.parameter_group_number, m.source_address, p, g18, sa))
        if m.can_id != x:
            return n, ("id-roundtrip", "MessageId(can_id=0x%08X).can_id == 0x%08X" % (x, m.can_id))
        m2 = MessageId(priority=p, parameter_group_number=g18, source_address=sa)
        if m2.can_id != x or m2.priority != p or m2.parameter_group_number != g18 or m2.source_address != sa:
            return n, ("id-compose", "MessageId(priority=%d, pgn=0x%05X, sa=%d).can_id == 0x%08X, reference 0x%08X"
                       % (p, g18, sa, m2.can_id, x))
        g = PGN()
        g.from_message_id(m)
        pf = (x >> 16) & 0xFF
        if (g.data_page != (x >> 24) & 1 or g.pdu_format != pf or g.pdu_specific != (x >> 8) & 0xFF
                or g.value != (x >> 8) & 0x1FFFF):
            return n, ("pgn-from-id", "PGN from id 0x%08X: dp=%r pf=%r ps=%r value=%r" %
                       (x, g.data_page, g.pdu_format, g.pdu_specific, g.value))
        if bool(g.is_pdu1_format) != (pf < 240) or bool(g.is_pdu2_format) != (pf >= 240):
            return n, ("pdu-class", "id 0x%08X (PF %d): is_pdu1=%r is_pdu2=%r" % (x, pf, g.is_pdu1_format, g.is_pdu2_format))
    return n, None


def check_pgns(vals):
    _, PGN, _ = _mods()
    n = 0
    for v in vals:
        n += 1
        dp, pf, ps = (v >> 16) & 1, (v >> 8) & 0xFF, v & 0xFF
        g = PGN(dp, pf, ps)
        if g.value != (v & 0x1FFFF) or g.data_page != dp or g.pdu_format != pf or g.pdu_specific != ps:
            return n, ("pgn-fields", "PGN(%d,%d,%d): value=0x%X dp=%r pf=%r ps=%r" % (dp, pf, ps, g.value, g.data_page, g.pdu_format, g.pdu_specific))
        if bool(g.is_pdu1_format) != (pf < 240) or bool(g.is_pdu2_format) == bool(g.is_pdu1_format):
            return n, ("pdu-class", "PGN 0x%05X: is_pdu1=%r is_pdu2=%r" % (v, g.is_pdu1_format, g.is_pdu2_format))
    return n, None


FIELD_KW = [a for a, _, _ in R.NAME_FIELDS if a != "reserved_bit"]


def check_names(vals):
    _, _, Name = _mods()
    n = 0
    for v in vals:
        n += 1
        exp = v & ~(1 << 48) & ONES64
        ef = R.name_fields(exp)
        eb = R.name_bytes(exp)
        nm = Name(value=v)
        for attr, val in ef.items():
            if int(getattr(nm, attr)) != val:
                return n, ("name-field:" + attr, "Name(value=0x%016X).%s == %r, J1939-81 position gives %d" % (v, attr, getattr(nm, attr), val))
        if nm.value != exp:
            return n, ("name-value", "Name(value=0x%016X).value == 0x%016X, expected 0x%016X" % (v, nm.value, exp))
        if list(nm.bytes) != eb:
            return n, ("name-bytes", "Name(value=0x%016X).bytes == %r, expected %r" % (v, list(nm.bytes), eb))
        nb = Name(bytes=R.name_bytes(v))
        if nb.value != exp or list(nb.bytes) != eb:
            return n, ("name-from-bytes", "Name(bytes=%r).value == 0x%016X, expected 0x%016X" % (R.name_bytes(v), nb.value, exp))
        nb2 = Name(bytes=bytearray(R.name_bytes(v)))
        if nb2.value != exp:
            return n, ("name-from-bytes", "Name(bytes=bytearray(..)) value 0x%016X expected 0x%016X" % (nb2.value, exp))
        # the same through the public setters of an existing object
        ns = Name()
        ns.value = v
        if ns.value != exp or list(ns.bytes) != eb or int(ns.reserved_bit) != 0:
            return n, ("name-value-setter", "n = Name(); n.value = 0x%016X gives value 0x%016X bytes %r reserved_bit %r, expected 0x%016X "
                       "(reserved bit reading as 0)" % (v, ns.value, list(ns.bytes), ns.reserved_bit, exp))
        ns2 = Name()
        ns2.bytes = R.name_bytes(v)
        if ns2.value != exp or list(ns2.bytes) != eb:
            return n, ("name-bytes-setter", "n = Name(); n.bytes = %r gives value 0x%016X, expected 0x%016X" % (R.name_bytes(v), ns2.value, exp))
        # a field assigned through its setter AFTER value / bytes have been read once shows in value and bytes
        # (every second value only: nine assignments each)
        if n % 2 == 0:
            nq = Name(value=v)
            _ = nq.value, nq.bytes
            cur = dict(ef)
            for attr in FIELD_KW:
                lo_w = [(a, lo, w) for (a, lo, w) in R.NAME_FIELDS if a == attr][0]
                newv = (cur[attr] + 1) % (1 << lo_w[2])
                setattr(nq, attr, newv)
                cur[attr] = newv
                want = R.name_value(cur)
                if nq.value != want or list(nq.bytes) != R.name_bytes(want):
                    return n, ("name-field-setter", "Name(value=0x%016X): after value/bytes were read and %s was set to %d through its "
                               "setter, value is 0x%016X (expected 0x%016X), bytes %r" % (v, attr, newv, nq.value, want, list(nq.bytes)))
        nf = Name(**{k: ef[k] for k in FIELD_KW})
        if nf.value != exp or list(nf.bytes) != eb:
            return n, ("name-from-fields", "Name(**%r).value == 0x%016X, expected 0x%016X" % ({k: ef[k] for k in FIELD_KW}, nf.value, exp))
        for attr, val in ef.items():
            if int(getattr(nf, attr)) != val:
                return n, ("name-field:" + attr, "Name(fields).%s == %r expected %d" % (attr, getattr(nf, attr), val))
    return n, None


def check_order(pairs):
    _, _, Name = _mods()
    n = 0
    for a, b in pairs:
        n += 1
        ea, eb = a & ~(1 << 48), b & ~(1 << 48)
        na, nb = Name(bytes=R.name_bytes(a)), Name(value=b)
        ia = int.from_bytes(bytes(R.name_bytes(ea)), "little")
        ib = int.from_bytes(bytes(R.name_bytes(eb)), "little")
        if (na.value < nb.value) != (ia < ib) or (na.value == nb.value) != (ia == ib) or (na.value > nb.value) != (ia > ib):
            return n, ("name-order", "ordering of 0x%016X vs 0x%016X differs from the 64-bit comparison" % (a, b))
    return n, None


def check_arbitration(pairs):
    """'NAME comparison used in address arbitration is the comparison of these 64-bit values': an operational CA (own NAME)
    receives an address-claimed frame for its address from a contender NAME; it must give the address up exactly when the
    contender's 64-bit value is lower, keep it (and stay operational) when it is higher, ignore an equal one."""
    from vlib import simbus
    n = 0
    j = W.load()
    State = j.ControllerApplication.State
    w = W.World(default_latency=(0.0002,))
    try:
        raw = simbus.RawNode(w.bus, "X")
        stacks = []
        for idx, (own, other) in enumerate(pairs):
            own &= ~(1 << 48) & ONES64
            # the contender's frame may carry the reserved bit as 1: it reads as 0 (property statement), so the decision is
            # the one for the value without it
            stk = w.stack("s%d" % idx)
            addr = 0x10 + (idx % 100)
            ca = stk.add_ca("c", own, addr, bypass=True)
            stacks.append((stk, ca, own, other, addr))
        for (stk, ca, own, other, addr) in stacks:
            n += 1
            # only this stack is to see the contender: deliver directly to it
            stk.rx(simbus.mkframe(R.mk_id(6, 0, 0xEE, 255, addr), R.name_bytes(other)))
            keeps = ca.state == State.NORMAL and ca.device_address == addr
            wire = other
            other &= ~(1 << 48) & ONES64
            want_keep = other >= own
            if keeps != want_keep:
                return n, ("arbitration-order", "CA with NAME 0x%016X on address %d received a claim with NAME bytes 0x%016X (reserved bit "
                           "reading as 0: numerically %s): it %s the address" % (own, addr, wire, "lower" if other < own else ("equal" if other == own else "higher"),
                                            "kept" if keeps else "gave up"))
    finally:
        w.close()
    return n, None


ID_PGN_B = [0, 1, 0xFE, 0xFF, 0x100, 0xEFFF, 0xF000, 0xF0FF, 0xFEFF, 0xFFFF, 0x10000, 0x1EE00, 0x1FFFF, 0x20000,
            0x2FFFF, 0x30000, 0x3FFFE, 0x3FFFF, 0xEA00, 0xEB00, 0xEC00, 0xEE00, 0x4D00, 0x4E00, 0x2500]
ID_SA_B = [0, 1, 2, 127, 128, 247, 248, 253, 254, 255]


class C15:
    ID = "C15"
    LEVEL = "exploration"
    TECHNIQUE = ("exhaustive enumeration of the finite codec domains plus property-based sampling (Hypothesis) of the "
                 "2^64 NAME domain, against an independent reference codec")
    RULE = ("a case is a block of codec inputs: every PGN value 0..2^18-1 (exhaustive in both tiers); identifiers: all "
            "boundary combinations and single bits, plus a 2^19-element stride sample whose offset depends on VERIF_SEED "
            "(quick) or all 2^29 identifiers (thorough); NAME: every field swept over its full range with the other fields "
            "all-zero and all-ones, all 64 single-bit values, all 3^10 {min,mid,max} field tuples, ordering of adjacent and "
            "random pairs, the arbitration decision of an operational CA for NAME pairs whose bytes order them in opposite ways "
            "(contender frames with the reserved bit 0 and 1), and Hypothesis draws of random 64-bit values/identifiers; every block is non-trivial; distinct = "
            "distinct blocks; 'subruns' counts the individual values checked")
    ASSUMPTIONS = [
        "constructor arguments are in range (the Name constructor documents ValueError otherwise)",
        "the reserved NAME bit reads as 0 after construction (property statement)",
    ]
    shrink_lists = ("vals", "pairs")

    def strategy(self, tier):
        u64 = st.integers(0, ONES64)
        near = st.builds(lambda v, b: v ^ (1 << b), u64, st.integers(0, 63))
        return st.fixed_dictionaries({
            "k": st.just("rand"),
            "names": st.lists(st.one_of(u64, near), min_size=8, max_size=8),
            "ids": st.lists(st.integers(0, (1 << 29) - 1), min_size=16, max_size=16),
            "pairs": st.lists(st.tuples(u64, st.integers(0, 63), st.integers(0, 63)), min_size=4, max_size=4),
        })

    def examples(self, tier):
        return 3000 if tier == "quick" else 100000

    def exhaustive(self, tier):
        return tier == "thorough"

    def coverage_note(self, tier):
        return ("PGN space (2^18) enumerated completely in both tiers; identifier space (2^29) enumerated completely in "
                "the thorough tier only (quick: boundaries + 2^19 stride sample); NAME space sampled structurally "
                "(2^64 cannot be enumerated). 'exhaustive' refers to the PGN and identifier spaces.")

    def enumerate(self, tier):
        import os
        seed = int(os.environ.get("VERIF_SEED", "1") or "1")
        out = []
        for s in range(0, 1 << 18, 1 << 13):
            out.append({"k": "pgn", "start": s, "count": 1 << 13})
        out.append({"k": "id_boundary"})
        if tier == "quick":
            off = (seed * 2654435761) % 1024
            for s in range(0, 1 << 19, 1 << 13):
                out.append({"k": "id", "start": off + s * 1024, "stride": 1024, "count": 1 << 13})
        else:
            for s in range(0, 1 << 29, 1 << 19):
                out.append({"k": "id", "start": s, "stride": 1, "count": 1 << 19})
        for attr, lo, width in R.NAME_FIELDS:
            if attr == "reserved_bit":
                continue
            size = 1 << width
            step = 1 if (tier == "thorough" or size <= 4096) else 16
            chunk = 1 << 15
            for base in (0, 1):
                for s in range(0, size, chunk * step):
                    out.append({"k": "name_sweep", "field": attr, "base": base, "start": s, "step": step,
                                "count": min(chunk, (size - s + step - 1) // step)})
        out.append({"k": "name_bits"})
        for part in range(9):
            out.append({"k": "name_tuples", "part": part})
        out.append({"k": "name_order_adjacent"})
        for part in range(4):
            out.append({"k": "arbitration", "part": part})
        return out

    def run_case(self, p):
        k = p["k"]
        fail = None
        n = 0
        if k == "pgn":
            n, fail = check_pgns(range(p["start"], p["start"] + p["count"]))
        elif k == "id":
            n, fail = check_ids(range(p["start"], min(1 << 29, p["start"] + p["count"] * p["stride"]), p["stride"]))
        elif k == "id_boundary":
            xs = [1 << b for b in range(29)] + [((1 << 29) - 1) ^ (1 << b) for b in range(29)] + [0, (1 << 29) - 1]
            xs += [R.id_compose(pr, g, sa) for pr in range(8) for g in ID_PGN_B for sa in ID_SA_B]
            n, fail = check_ids(xs)
        elif k == "name_sweep":
            lo, width = [(l, w) for a, l, w in R.NAME_FIELDS if a == p["field"]][0]
            mask = ((1 << width) - 1) << lo
            base = 0 if p["base"] == 0 else (ONES64 & ~mask)
            vals = (base | (((p["start"] + i * p["step"]) & ((1 << width) - 1)) << lo) for i in range(p["count"]))
            n, fail = check_names(vals)
            if fail is None and p["start"] == 0:
                n2, fail = check_names([base | mask, base | (mask & (mask >> 1)), base | (1 << lo)])
                n += n2
        elif k == "name_bits":
            vals = [1 << b for b in range(64)] + [ONES64 ^ (1 << b) for b in range(64)] + [0, ONES64]
            n, fail = check_names(vals)
            if fail is None:
                n2, fail = check_order([(a, b) for a in vals[:64] for b in vals[:64]])
                n += n2
        elif k == "name_tuples":
            fields = [(a, l, w) for a, l, w in R.NAME_FIELDS]
            combos = itertools.product(*[[0, (1 << w) >> 1, (1 << w) - 1] for _, _, w in fields])
            vals = []
            for i, c in enumerate(combos):
                if i % 9 != p["part"]:
                    continue
                v = 0
                for (a, l, w), x in zip(fields, c):
                    v |= x << l
                vals.append(v)
            n, fail = check_names(vals)
        elif k == "name_order_adjacent":
            pairs = []
            for a, lo, w in R.NAME_FIELDS:
                for base in (0, ONES64 & ~(((1 << w) - 1) << lo)):
                    x = base | (1 << lo)
                    pairs += [(x, base), (base, x), (x, x), (x, x ^ 1), (x ^ (1 << 63), x), (x, x ^ (1 << 47)), (x, x ^ (1 << 49))]
            n, fail = check_order(pairs)
        elif k == "arbitration":
            pairs = []
            base = 0x0123456789ABCDEF & ~(1 << 48)
            # byte i orders the NAMEs one way, byte j the other way (i < j): the more significant byte must decide
            for i in range(8):
                for jj in range(i + 1, 8):
                    for b0 in (base, 0):
                        lo_i, hi_i = 0x10 << (8 * i), 0x20 << (8 * i)
                        lo_j, hi_j = 0x02 << (8 * jj), 0x04 << (8 * jj)
                        clear = ~((0xFF << (8 * i)) | (0xFF << (8 * jj))) & ONES64
                        a = (b0 & clear) | hi_i | lo_j
                        b = (b0 & clear) | lo_i | hi_j
                        pairs += [(a, b), (b, a)]
            # single-bit differences at every bit, adjacent values, equal values
            for bit in range(64):
                if bit == 48:
                    continue
                pairs += [(base, base ^ (1 << bit)), (base ^ (1 << bit), base)]
            pairs += [(base, base), (base, base + 1), (base + 1, base), (0, 1), (1, 0), (ONES64 & ~(1 << 48), (ONES64 & ~(1 << 48)) - 1),
                      (0x00000000000000FF, 0x0000000000000100), (0x0000000000000100, 0x00000000000000FF),
                      (0x8000000000000001, 0x0000000000000002), (0x0000000000000002, 0x8000000000000001)]
            # the same decisions when the contender's frame carries the reserved bit as 1
            pairs += [(a, b | (1 << 48)) for (a, b) in pairs]
            pairs = pairs[p["part"]::4]
            n, fail = check_arbitration(pairs)
        elif k == "rand":
            n, fail = check_names(p["names"])
            if fail is None:
                n2, fail = check_ids(p["ids"])
                n += n2
            if fail is None:
                pairs = []
                for v, b1, b2 in p["pairs"]:
                    pairs += [(v, v ^ (1 << b1)), (v ^ (1 << b2), v ^ (1 << b1)), (v, v)]
                n2, fail = check_order(pairs)
                n += n2
            if fail is None:
                n2, fail = check_arbitration([(v ^ (1 << b2), (v ^ (1 << b1)) | ((idx % 2) << 48))
                                              for idx, (v, b1, b2) in enumerate(p["pairs"][:2])])
                n += n2
        else:
            raise ValueError(k)
        viol = []
        if fail is not None:
            viol.append({"kind": fail[0], "msg": fail[1], "bucket": "C15|%s" % fail[0]})
        sample = p if k != "rand" else {"k": "rand", "names": ["0x%016X" % v for v in p["names"][:2]], "ids": p["ids"][:2]}
        return {"violations": viol, "labels": [k], "nontrivial": True, "subruns": n, "sample": sample}


CHECK = C15()
