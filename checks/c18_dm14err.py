"""C18 - DM14 serves no data without the right key, surfaces errors, and recovers.

Generated histories of 1..6 operations on the same client and server objects, each with a fate:
success, wrong key, refusal by the proceed callback, refusal at respond(False, error, edcp) with
every defined J1939 error code and undefined ones, absent server with the caller's timeout from
a grid.  Oracle: callbacks only after the matching key (trace), failures raise in time naming the
error code, and after any fate the next well-formed operation succeeds.  DESIGN.md 5/C18.
"""
from hypothesis import strategies as st

from vlib import dm14scen as D
from vlib import world as W
from vlib import simbus
from vlib import refcodec as R

FATES = ["ok", "ok", "wrong_key", "refuse_proceed", "respond_error", "absent", "fail_after_proceed", "late"]


def _errors():
    j = W.load()
    return sorted(e.value for e in j.J1939Error)


def _strategy():
    @st.composite
    def build(draw):
        seed_key = draw(st.one_of(st.none(), st.tuples(st.integers(0, 0xFFFF), st.integers(0, 0xFFFF)).map(list)))
        ops = []
        n = draw(st.integers(1, 6))
        for i in range(n):
            fate = draw(st.sampled_from(FATES))
            if fate == "wrong_key" and not seed_key:
                fate = "respond_error"
            if fate == "fail_after_proceed" and seed_key:
                fate = "respond_error"          # (the scripted device has no seed/key exchange)
            size = draw(st.sampled_from([1, 2, 4]))
            nb = draw(st.sampled_from([1, 4, 7, 8, 20]))
            op = {"op": draw(st.sampled_from(["read", "write"])), "fate": fate, "size": size, "count": max(1, nb // size),
                  "data_seed": draw(st.integers(0, 10 ** 5)), "gap_after": draw(st.sampled_from([0.001, 0.001, 0.05, 0.05, 0.5, 1.5, 3.5])),
                  "addr_sel": draw(st.sampled_from([0, 0, 0, 1, 2])), "raw": draw(st.booleans())}
            if fate == "late":
                # the serving application answers a single-frame read so late that the caller's timeout expires while the client
                # is writing its closing DM14 (client write time 3 ms; "frac" = where in that write the timeout falls)
                op["op"] = "read"
                op["count"], op["size"] = draw(st.sampled_from([1, 3, 7])), 1
                op["max_timeout"] = draw(st.sampled_from([0.1, 0.5, 1]))
                op["frac"] = draw(st.sampled_from([0.1, 0.25, 0.5, 0.75, 0.9]))
                op["gap_after"] = max(op["gap_after"], 0.05)
            if fate == "fail_after_proceed":
                # a scripted device (in place of the library server) answers a READ with DM15 'proceed' and then, instead of the
                # data, with DM15 'operation failed' carrying an error indicator
                op["op"] = "read"
                fate = op["fate"] = "fail_after_proceed"
            if fate in ("respond_error", "fail_after_proceed"):
                op["error"] = draw(st.one_of(st.sampled_from(_errors()), st.sampled_from([0xBEEF, 0x3, 0xABCDE, 0x7FFFFF])))
                op["edcp"] = draw(st.sampled_from([6, 7]))
            if fate == "absent":
                op["max_timeout"] = draw(st.sampled_from([0.1, 0.5, 1, 2]))
            if fate == "wrong_key":
                op["wrong"] = draw(st.sampled_from(["xor1", "xor_hi", "xor_top", "zero", "ffff", "other", "seven"]))
            ops.append(op)
        # an operation that follows within a millisecond must not be one for which the harness takes the server off the bus:
        # the closing DM14 of the operation before may still be in flight (latency up to 5 ms) and would be lost with it
        for a, b in zip(ops, ops[1:]):
            if b["fate"] in ("absent", "fail_after_proceed") and a["gap_after"] < 0.02:
                a["gap_after"] = 0.05
        has_late = any(o["fate"] == "late" for o in ops)
        if has_late:
            for o in ops:
                if o["fate"] == "wrong_key":           # (no seed/key exchange in these cases)
                    o["fate"] = "respond_error"
                    o["error"], o["edcp"] = 0x1003, 7
        return {"seed_key": seed_key if not has_late else None,
                # ("key=7": the seed whose matching key equals the user level 0x0007 the request itself carries in the key field)
                "seeds": draw(st.lists(st.one_of(st.sampled_from([0x0000, 0xFFFF, 1, 0xFFFE, 0x8000, 0x00FF, "key=7", "key=7"]), st.integers(0, 0xFFFF)), min_size=1, max_size=3)),
                "ops": ops, "final_probe": True, "sas": draw(st.sampled_from([[0xF9, 0xD4, 0xA7], [0xF9, 0xD4, 0xA7], [0x00, 0xD4, 0xA7], [0x01, 0x00, 0xFD], [0xFD, 0x80, 0x00], [0x7F, 0xFD, 0x01]])),
                # (server-side write times are not generated: the server's DM14 code updates its state after several of its writes;
                # two such defects were repaired - D40 (client), D41 (server, write data) - the rest is a documented limit, DESIGN.md 8)
                "tx": draw(st.sampled_from([[0.0, 0.0], [0.0, 0.0], [0.0015, 0.0], [0.003, 0.0], [0.0005, 0.0]])) if not has_late else [0.003, 0.0],
                "lat": {"C": [draw(st.sampled_from([0.0002, 0.001, 0.005]))], "S": [draw(st.sampled_from([0.0002, 0.001, 0.005]))]}}
    return build()


ADDRS = [0x92000003, 0x91000007, 0x00000010]


class C18:
    ID = "C18"
    LEVEL = "exploration"
    TECHNIQUE = ("model-based property testing: generated histories of DM14 operations with injected failure fates, oracle = "
                 "key-before-callback trace check, exception text/timing, recovery of the next well-formed operation")
    RULE = ("Hypothesis draws seed/key off or on (generated seeds and bijective key algorithm) and a history of 1..6 reads/writes "
            "(1..20 bytes, object sizes 1/2/4, same or different memory address) each with a fate: success / wrong key (one bit flipped in the low byte, the high byte or the top bit, "
            "0x0000, 0xFFFF, 0x0007 = the user level the request carries in the same field, another algorithm) / proceed callback refuses / respond(False, error, edcp) with every J1939Error value "
            "and undefined ones, edcp 6 or 7 / a scripted device that answers a read with 'proceed' and then with 'operation failed' + error indicator / an answer at the last moment (the caller's timeout of 0.1/0.5/1 s expires while the client writes its closing DM14 for 3 ms) / server absent with max_timeout in {0.1,0.5,1,2 s}; gaps 0.05..3.5 s; a final "
            "well-formed read always follows; non-trivial = a failure followed by an operation that must succeed; distinct = "
            "distinct histories")
    ASSUMPTIONS = [
        "the serving application registers proceed and notify callbacks and answers from an application thread",
        "error indicators are reported with edcp 6 or 7 (the only extensions for which the client documents an exception)",
        "seeds and keys take any 16-bit value incl. the boundaries 0x0000 and 0xFFFF (set through set_seed_generator)",
    ]
    shrink_lists = ("ops",)
    shrink_min = {"ops": 1}

    def strategy(self, tier):
        return _strategy()

    def examples(self, tier):
        return 2400 if tier == "quick" else 300000

    def enumerate(self, tier):
        out = []
        # every defined error code once, as read and as write, followed by a success
        for i, e in enumerate(_errors()):
            out.append({"seed_key": [3, 0x1234] if i % 2 else None, "seeds": [0xA55A], "final_probe": True,
                        "lat": {"C": [0.0005], "S": [0.0005]},
                        "ops": [{"op": "read" if i % 4 < 2 else "write", "fate": "respond_error", "size": 1, "count": 4, "data_seed": i,
                                 "gap_after": 0.05, "addr_sel": 0, "raw": True, "error": e, "edcp": 7 - (i % 2)}]})
        return out

    def exhaustive(self, tier):
        return False

    def valid(self, p):
        return bool(p["seed_key"]) or not any(o["fate"] == "wrong_key" for o in p["ops"])

    def run_case(self, p):
        viol = []
        j = W.load()

        def V(kind, msg, site=""):
            viol.append({"kind": kind, "msg": msg, "bucket": "C18|%s|%s" % (kind, site)})

        ops = list(p["ops"])
        if p.get("final_probe", True):
            ops = ops + [{"op": "read", "fate": "ok", "size": 1, "count": 5, "data_seed": 4242, "gap_after": 0.05, "addr_sel": 0, "raw": True}]
        sas = p.get("sas", [D.SA_C, D.SA_S, D.SA_I])
        right = D.key_fn(p["seed_key"]) if p["seed_key"] else None
        if p["seed_key"]:
            a_, b_ = p["seed_key"][0] | 1, p["seed_key"][1]
            seed7 = ((0x0007 ^ b_) * pow(a_, -1, 1 << 16)) & 0xFFFF          # right(seed7) == 0x0007
        else:
            seed7 = 0xFFF8
        p = dict(p, seeds=[seed7 if x == "key=7" else x for x in p["seeds"]])
        dw = D.Dm14World(dict(p, sa_c=sas[0], sa_s=sas[1], sa_i=sas[2]))
        try:
            txs, plans, exp = [], [], []
            for ti, o in enumerate(ops):
                size, count = o["size"], o["count"]
                tx = {"op": o["op"], "direct": 1, "addr": ADDRS[o.get("addr_sel", 0)], "count": count, "size": size,
                      "gap_after": o.get("gap_after", 0.05), "max_timeout": o.get("max_timeout", 3), "raw": True, "signed": False}
                data = D.mem_bytes(o["data_seed"], size * count)
                if o["op"] == "write":
                    tx["values"] = D.values_for(o["data_seed"], count, size)
                txs.append(tx)
                exp.append(data if o["op"] == "read" else [b for v in tx["values"] for b in v.to_bytes(size, "little")])
                if o["fate"] in ("ok", "respond_error", "late"):
                    if o["fate"] == "late":
                        # request (written in 3 ms) -> server after its latency; answer -> client after its latency
                        # (the caller's timeout starts when the write of the request has returned, 3 ms after the frame)
                        d_ = o["max_timeout"] + 0.003 - p["lat"]["S"][0] - p["lat"]["C"][0] - 0.003 * o["frac"]
                        plans.append({"proceed": True, "data": data, "tx": ti, "delay": d_})
                    elif o["fate"] == "ok":
                        plans.append({"proceed": True, "data": data if o["op"] == "read" else [], "tx": ti})
                    else:
                        plans.append({"proceed": False, "error": o["error"], "edcp": o["edcp"], "tx": ti})
            dw.respond_plan = plans
            # the scripted device: speaks for the server's address while the library server is off the bus
            dev = simbus.RawNode(dw.w.bus, "D")
            dev_active = [None]

            def dev_rx(frame):
                o = dev_active[0]
                f = R.id_fields(frame.can_id)
                if o is None or not frame.ext or f["pf"] != 0xD9 or f["ps"] != sas[1] or f["sa"] != sas[0] or len(frame.data) != 8:
                    return
                cmd = (frame.data[1] >> 1) & 7
                if cmd != 1 or o.get("_answered"):         # (1 = read request; the closing DM14 is not answered)
                    return
                o["_answered"] = True
                count = frame.data[0]
                direct = (frame.data[1] >> 4) & 1
                cid = R.mk_id(6, 0, 0xD8, sas[0], sas[1])
                err = o["error"]
                proceed = [count, (direct << 4) + (0 << 1) + 1, 0xFF, 0xFF, 0xFF, 0xFF, 0xFF, 0xFF]
                failed = [0x00, (direct << 4) + (5 << 1) + 1, err & 0xFF, (err >> 8) & 0xFF, (err >> 16) & 0xFF, o["edcp"], 0xFF, 0xFF]
                dw.w.sim.schedule(dw.w.sim.now + 0.001, lambda: dev.send(cid, proceed))
                dw.w.sim.schedule(dw.w.sim.now + 0.004, lambda: dev.send(cid, failed))
            dev.on_rx = dev_rx

            def before(ti, tx):
                o = ops[ti]
                dw.proceed_answer[0] = o["fate"] != "refuse_proceed"
                if o["fate"] == "wrong_key":
                    w_ = o.get("wrong", "xor1")
                    wrong = {"xor1": (lambda s: right(s) ^ 1), "xor_hi": (lambda s: right(s) ^ 0x100), "xor_top": (lambda s: right(s) ^ 0x8000), "zero": (lambda s: 0 if right(s) != 0 else 1),
                             "ffff": (lambda s: 0xFFFF if right(s) != 0xFFFF else 0xFFFE),
                             "seven": (lambda s: 0x0007 if right(s) != 0x0007 else 0x0008),
                             "other": (lambda s: (right(s) + 0x1357) & 0xFFFF)}[w_]
                    dw.client.query.set_seed_key_algorithm(wrong)
                if o["fate"] in ("absent", "fail_after_proceed"):
                    dw.w.bus.set_silenced("S", True)
                if o["fate"] == "fail_after_proceed":
                    dev_active[0] = dict(o)

            def after(ti, tx, res):
                dev_active[0] = None
                o = ops[ti]
                if o["fate"] == "wrong_key":
                    dw.client.query.set_seed_key_algorithm(right)
                if o["fate"] == "fail_after_proceed":
                    D.sk.FAKE_TIME.sleep(0.02)       # (the client's frames to the silenced library server are still in flight)
                if o["fate"] in ("absent", "fail_after_proceed"):
                    dw.w.bus.set_silenced("S", False)

            dw.run_client(txs, before, after)
            dw.w.run_for(sum(4.0 + t["gap_after"] for t in txs) + 1.0)
            results = list(dw.results)
            responds = list(dw.respond_results)
            proceeds = list(dw.proceed_calls)
            notifies = list(dw.notify_calls)
            log = list(dw.w.bus.log)
            live = dw.w.liveness_problems()
            seeds_sent = list(dw.sent_seeds)
            final_states = dw.peek_states()
        finally:
            dw.close()
        mode = "seedkey" if p["seed_key"] else "plain"
        for k2, detail, tt in live:
            V("liveness-" + k2, "%s %r" % (k2, detail), mode)
        if len(results) != len(ops):
            V("client-hung", "only %d of %d operations returned" % (len(results), len(ops)), mode)
        prev_fail = None
        nontrivial = False
        for ti, (r, o) in enumerate(zip(results, ops)):
            fate = o["fate"]
            dt = r["t1"] - r["t0"]
            site = "%s|%s|%s" % (mode, o["op"], fate)
            after_what = "first" if prev_fail is None else "after-" + prev_fail
            if fate == "ok":
                if prev_fail is not None:
                    nontrivial = True
                if "exc" in r:
                    V("recovery-failed" if prev_fail else "ok-op-raised",
                      "operation %d (well-formed %s of %d x %d bytes at 0x%08X) raised %s: %s%s" %
                      (ti, o["op"], o["count"], o["size"], ADDRS[o.get("addr_sel", 0)], r["exc"][0], r["exc"][1][:100],
                       (" - the previous operation had ended with fate '%s'" % prev_fail) if prev_fail else ""), site + "|" + after_what)
                    break
                if o["op"] == "read" and r.get("value") != exp[ti]:
                    V("recovery-wrong-data" if prev_fail else "ok-op-wrong-data", "operation %d: read returned %r, supplied %r (%s)" %
                      (ti, (r.get("value") or [])[:8], exp[ti][:8], after_what), site + "|" + after_what)
                    break
                if o["op"] == "write":
                    rr = [x for x in responds if x[1] == ti]
                    got = list(rr[0][2]) if rr and rr[0][2] is not None and not isinstance(rr[0][2], str) else (rr[0][2] if rr else None)
                    if got != exp[ti]:
                        V("recovery-wrong-data" if prev_fail else "ok-op-wrong-data", "operation %d: respond() returned %r, client wrote %r (%s)" %
                          (ti, got if isinstance(got, str) or got is None else got[:8], exp[ti][:8], after_what), site + "|" + after_what)
                        break
                prev_fail = None
                continue
            if fate == "late":
                # whatever the outcome of this operation (data, nothing, an exception): it counts as a failed operation only when
                # the client has still written its closing DM14 (then the server is idle again) - the next one must succeed
                closing = [e for e in log if e.node == "C" and ((e.can_id >> 16) & 0xFF) == 0xD9 and len(e.data) == 8 and
                           ((e.data[1] >> 1) & 7) == 4 and r["t0"] <= e.t <= r["t1"] + 0.004]
                if "exc" not in r and r.get("value") not in ([], None) and r.get("value") != exp[ti]:
                    V("ok-op-wrong-data", "operation %d (answered at the last moment): read returned %r, supplied %r" %
                      (ti, r.get("value"), exp[ti]), site)
                    break
                if not closing:
                    break           # the client gave up before the answer: the server waits for ever (documented limit) - stop here
                prev_fail = "late" if ("exc" in r or r.get("value") in ([], None)) else None
                continue
            # failing fates
            if "exc" not in r:
                V("failure-not-reported", "operation %d with fate '%s' returned %r instead of raising" % (ti, fate, r.get("value")), site)
                break
            text = r["exc"][1]
            limit = o.get("max_timeout", 3)
            if dt > limit + 0.01:
                V("failure-late", "operation %d (fate %s) raised after %.3f s, the caller's timeout is %.3f s" % (ti, fate, dt, limit), site)
            if fate == "absent":
                if "No response from server" not in text:
                    V("absent-wrong-text", "absent server: exception text %r" % text[:120], site)
            else:
                code = {"wrong_key": 0x1003, "refuse_proceed": None, "respond_error": o.get("error"), "fail_after_proceed": o.get("error")}[fate]
                if code is not None:
                    if hex(code) not in text:
                        V("error-code-missing", "operation %d (fate %s): exception %r does not name error code %s" % (ti, fate, text[:120], hex(code)), site)
                    elif code in j.ErrorInfo and j.ErrorInfo[code] not in text:
                        V("error-text-missing", "operation %d: exception %r lacks the text %r of code %s" % (ti, text[:120], j.ErrorInfo[code], hex(code)), site)
                elif "error" not in text.lower():
                    V("error-code-missing", "operation %d (refused by the application): exception %r names no error" % (ti, text[:120]), site)
            prev_fail = fate
        # ---- key before callbacks (trace)
        if right is not None:
            dm14 = [(e.t, e.data[6] | (e.data[7] << 8), (e.data[1] >> 1) & 7) for e in log if e.node == "C" and ((e.can_id >> 16) & 0xFF) == 0xD9 and len(e.data) == 8]
            for (t, a) in proceeds:
                seeds_before = [s for (ts, s) in seeds_sent if ts <= t]
                keys_before = [k for (tk, k, cmd) in dm14 if tk <= t]
                if not seeds_before or not keys_before or keys_before[-1] != right(seeds_before[-1]):
                    V("callback-without-key", "proceed callback ran at t=%.4f but the last DM14 received carried key %s, the seed sent was %s "
                      "(matching key %s)" % (t - 1000, hex(keys_before[-1]) if keys_before else None,
                                            hex(seeds_before[-1]) if seeds_before else None,
                                            hex(right(seeds_before[-1])) if seeds_before else None), mode)
                    break
            n_wrong = sum(1 for o in ops if o["fate"] == "wrong_key")
            for ti, o in enumerate(ops):
                if o["fate"] == "wrong_key" and any(x[1] == ti for x in responds):
                    V("served-with-wrong-key", "operation %d used a wrong key but the serving application was asked to respond" % ti, mode)
        labels = [mode] + sorted({"fate-" + o["fate"] for o in p["ops"]})
        if len({o.get("addr_sel", 0) for o in ops}) > 1:
            labels.append("address-varies")
        return {"violations": viol, "labels": labels, "nontrivial": nontrivial,
                "sample": {"seed_key": p["seed_key"], "ops": [{k: o[k] for k in o if k in ("op", "fate", "size", "count", "error", "edcp", "max_timeout", "addr_sel", "gap_after")} for o in p["ops"]]}}


CHECK = C18()
