"""C12 - timers fire when due and callback registrations mean what they say.

Generated: histories of <= 12 add_timer / remove_timer / subscribe / unsubscribe / probe
operations with idle gaps, issued from the application context or from inside a timer
callback, on one ECU under the virtual-time kernel.
Oracle: reference timer model (windows per registration, no drift, nothing after removal,
nothing missing) - DESIGN.md 5/C12.
"""
from hypothesis import strategies as st

from vlib import world as W
from vlib import simbus
from vlib import simkernel as sk

NCB = 3
EPS_GRID = [0.0, 1e-6, 1e-5, 1e-4]
FAST_P = [0.001, 0.002, 0.005, 0.01]
SLOW_P = [0.05, 0.1, 0.25, 1.0, 3.0]
FAST_GAP = [0.0, 0.0005, 0.001, 0.0025, 0.005, 0.01, 0.03]
SLOW_GAP = [0.0, 0.01, 0.05, 0.1, 0.25, 0.3, 1.0, 3.0, 7.0]
PROBE_ID = 0x18FF4280   # PDU2 broadcast from source 0x80
REQUEST_PROBE_ID = 0x18EAFF80   # request to the global address from source 0x80


def _ops(regime):
    if regime == "fast":
        per, gaps, periodic = FAST_P, FAST_GAP, st.sampled_from([True, True, False])
    elif regime == "slow":
        per, gaps, periodic = SLOW_P, SLOW_GAP, st.sampled_from([True, True, False])
    else:
        per, gaps, periodic = FAST_P + SLOW_P, SLOW_GAP, None
    # -1: application context; 0..NCB-1: inside the next call of that timer callback; 10..10+NCB-1: inside the next call of
    # that subscriber callback (receive context)
    ctx = st.sampled_from([-1, -1, -1, -1, -1, -1, 0, 1, 2, 10, 11])
    cb = st.integers(0, NCB - 1)
    gap = st.sampled_from([0.0, 0.0, gaps[1]] + gaps)
    if periodic is None:
        add = st.tuples(st.sampled_from(per), st.booleans()).map(lambda x: (x[0], x[1] and x[0] >= 0.05))
    else:
        add = st.tuples(st.sampled_from(per), periodic)
    # run time of the callback (virtual): mostly zero; always well below the shortest period of the regime
    durs = [0.0, 0.0, 0.0, 0.0, 0.0001, 0.0003] if regime == "fast" else [0.0, 0.0, 0.0, 0.0, 0.001, 0.005, 0.02]
    op_add = st.builds(lambda g, c, a, x, du: {"gap": g, "op": "add", "cb": c, "p": a[0], "per": a[1], "ctx": x,
                                               "dur": du if du < a[0] / 2 else 0.0},
                       gap, cb, add, ctx, st.sampled_from(durs))
    op_rm = st.builds(lambda g, c, x: {"gap": g, "op": "rm", "cb": c, "ctx": x}, gap, cb, ctx)
    sdur = st.sampled_from([0.0, 0.0, 0.0, 0.001, 0.005, 0.02])      # run time of a subscriber callback
    op_sub = st.builds(lambda g, c, x, du: {"gap": g, "op": "sub", "cb": c, "ctx": x, "dur": du}, gap, cb, ctx, sdur)
    op_unsub = st.builds(lambda g, c, x: {"gap": g, "op": "unsub", "cb": c, "ctx": x}, gap, cb, ctx)
    op_probe = st.builds(lambda g: {"gap": g, "op": "probe"}, gap)
    rnd = st.lists(st.one_of(op_add, op_add, op_add, op_add, op_rm, op_rm, op_sub, op_unsub, op_probe),
                   min_size=2, max_size=12)
    # structured histories: several operations executed inside ONE invocation of a timer callback while a
    # neighbour registered in the same instant (same deadline) is due in the same pass of the job thread
    def nest(p0, per_x, a, x, inner, tail):
        ops = [{"gap": 0.0, "op": "add", "cb": a, "p": p0, "per": True, "ctx": -1},
               {"gap": 0.0, "op": "add", "cb": x, "p": p0, "per": per_x, "ctx": -1}]
        for o in inner:
            ops.append(dict(o, gap=0.0, ctx=a))
        return ops + tail
    inner = st.lists(st.one_of(op_rm, op_add, op_rm, op_add), min_size=1, max_size=3)
    p_ok = [q for q in per if regime != "mixed" or q >= 0.05]      # no fast periodic timers across multi-second gaps (cost)
    pattern = st.builds(nest, st.sampled_from(p_ok), st.booleans(), st.integers(0, NCB - 1), st.integers(0, NCB - 1), inner,
                        st.lists(st.one_of(op_add, op_rm, op_probe), max_size=4))
    # structured histories around ONE delivery in flight: subscriber a (slow or not) and b (possibly twice) are registered,
    # a message arrives, and while a's callback runs further subscribe/unsubscribe/timer operations are executed -
    # inside that callback or from the application while the callback is still busy
    def snest(a, b, dup, du, how, inner, tail):
        ops = [{"gap": 0.0, "op": "sub", "cb": a, "ctx": -1, "dur": du if how == "app" else du * (how == "cb-slow")},
               {"gap": 0.0, "op": "sub", "cb": b, "ctx": -1, "dur": 0.0}]
        if dup:
            ops.append({"gap": 0.0, "op": "sub", "cb": b, "ctx": -1, "dur": 0.0})
        if how == "app":
            ops.append({"gap": 0.01, "op": "probe"})
            for k, o in enumerate(inner):
                ops.append(dict(o, gap=du / 4 if k == 0 else 0.0, ctx=-1))
        else:
            for o in inner:
                ops.append(dict(o, gap=0.0, ctx=10 + a))
            ops.append({"gap": 0.01, "op": "probe"})
        ops.append({"gap": 0.05, "op": "probe"})
        return ops + tail
    s_inner = st.lists(st.one_of(op_sub, op_unsub, op_unsub, op_rm, op_add), min_size=1, max_size=4)
    spattern = st.builds(snest, st.integers(0, NCB - 1), st.integers(0, NCB - 1), st.booleans(),
                         st.sampled_from([0.004, 0.02]), st.sampled_from(["app", "cb", "cb-slow"]), s_inner,
                         st.lists(st.one_of(op_sub, op_unsub, op_probe, op_probe), max_size=4))
    return st.one_of(rnd, rnd, rnd, pattern, pattern, spattern)


def _strategy():
    return st.sampled_from(["fast", "slow", "mixed"]).flatmap(
        lambda r: st.fixed_dictionaries({
            "regime": st.just(r),
            "eps": st.lists(st.sampled_from(EPS_GRID), min_size=1, max_size=3),
            "disp": st.lists(st.sampled_from(EPS_GRID), min_size=1, max_size=3),
            "ops": _ops(r),
            "tail": st.sampled_from([0.02, 0.05] if r == "fast" else [0.3, 1.1, 3.5, 6.0]),
            # which subscribe/unsubscribe pair the history uses: the ECU's, a controller application's (same stream, filtered by
            # the CA), or the CA's request stream (subscribe_request / unsubscribe_request; the probes are then PGN requests)
            "sub_api": st.sampled_from(["ecu", "ecu", "ca", "request"]),
        }))


class C12:
    ID = "C12"
    LEVEL = "exploration"
    TECHNIQUE = "property-based testing: generated operation histories vs. a reference timer model (virtual time)"
    RULE = ("Hypothesis draws histories of 1..12 add_timer/remove_timer/subscribe/unsubscribe/probe operations "
            "(periods 1 ms..3 s, one-shot and periodic, duplicate registrations, issued from the application "
            "context, from inside a timer callback or from inside a subscriber callback - also while a delivery to an earlier, "
            "slow subscriber (run time 1..20 ms) is still in flight -, idle gaps 0..7 s, wake-up lateness and dispatch latency "
            "0..100 us incl. exactly 0; the subscribe/unsubscribe pair is the ECU's, a controller application's, or the CA's "
            "request stream with PGN requests as probes) and runs them on a real ECU in virtual time; non-trivial = at least two "
            "registrations alive at the same instant; distinct = distinct parameter sets")
    ASSUMPTIONS = [
        "callbacks never raise; they take zero virtual time or a generated run time well below half their own period (all "
        "registrations together load the job thread to at most one half), during "
        "which the job thread is busy (lateness caused by a busy job thread is not a violation)",
        "timed waits return at or after their deadline, never early (lateness 0..100 us generated)",
        "code runs atomically between blocking points (line-level pre-emption is C08's subject)",
    ]
    shrink_lists = ("ops",)
    shrink_min = {"ops": 1}

    def strategy(self, tier):
        return _strategy()

    def examples(self, tier):
        return 6000 if tier == "quick" else 360000

    def enumerate(self, tier):
        return []

    def exhaustive(self, tier):
        return False

    # ------------------------------------------------------------------ execution
    def run_case(self, params):
        eps = params["eps"]
        disp = params["disp"]
        L = max(eps) + max(disp) + 2e-6
        # envelope: the background thread is not overloaded - the run times of all registered timer callbacks together stay
        # below half of the time (several registrations of one slow periodic callback add up); otherwise callbacks take no time
        load = sum(op.get("dur", 0.0) / op["p"] for op in params["ops"] if op["op"] == "add" and op.get("dur"))
        if load > 0.5:
            params = dict(params, ops=[dict(op, dur=0.0) if op["op"] == "add" else op for op in params["ops"]])
        w = W.World(wake_eps=eps, dispatch=disp, default_latency=(0.0002,))
        try:
            return self._run(w, params, L)
        finally:
            w.close()

    def _run(self, w, params, L):
        sim = w.sim
        st_ = w.stack("S")
        ecu = st_.ecu
        raw = simbus.RawNode(w.bus, "R")
        api = params.get("sub_api", "ecu")
        ca = st_.add_ca("c", 0x300, 0x33) if api != "ecu" else None
        probe_id = REQUEST_PROBE_ID if api == "request" else PROBE_ID
        seq = [0]
        regs = []          # registration records
        subs = []          # subscription records
        calls = []         # (t, seq, cb, reg_id)
        scalls = []        # (t, seq, cb, probe)
        pending = {i: [] for i in range(NCB)}    # ops waiting for the next call of timer cb i
        spending = {i: [] for i in range(NCB)}   # ops waiting for the next call of subscriber cb i
        sdur = {}          # run time of subscriber callbacks
        sdepth = [0]
        in_cb_ops = []     # (seq, op) executed inside callbacks
        busy = []          # [start, end] of callback executions that take time
        executed = []
        cur_probe = [None]
        probe_dirty = set()

        def nxt():
            seq[0] += 1
            return seq[0]

        def do(op, ctx):
            s = nxt()
            kind = op["op"]
            executed.append((sim.now, s, kind, op.get("cb"), ctx))
            if kind == "add":
                rid = len(regs)
                regs.append({"id": rid, "cb": op["cb"], "p": op["p"], "per": op["per"], "t": sim.now,
                             "seq": s, "rm": None, "calls": [], "dur": op.get("dur", 0.0)})
                ecu.add_timer(op["p"], tcb[op["cb"]], rid)
            elif kind == "rm":
                ecu.remove_timer(tcb[op["cb"]])
                s2 = nxt()
                for r in regs:
                    if r["cb"] == op["cb"] and r["rm"] is None:
                        r["rm"] = (sim.now, s2)
            elif kind == "sub":
                subs.append({"cb": op["cb"], "seq": s, "t": sim.now, "rm": None})
                if op.get("dur"):
                    sdur[op["cb"]] = op["dur"]
                if api == "ecu":
                    ecu.subscribe(scb[op["cb"]])
                elif api == "ca":
                    ca.subscribe(scb[op["cb"]])
                else:
                    ca.subscribe_request(rcb[op["cb"]])
                if cur_probe[0] is not None:
                    probe_dirty.add(cur_probe[0])
            elif kind == "unsub":
                try:
                    if api == "ecu":
                        ecu.unsubscribe(scb[op["cb"]])
                    elif api == "ca":
                        ca.unsubscribe(scb[op["cb"]])
                    else:
                        ca.unsubscribe_request(rcb[op["cb"]])
                except ValueError:
                    pass              # (not registered: list.remove in the request stream says so; nothing to judge)
                s2 = nxt()
                for r in subs:
                    if r["cb"] == op["cb"] and r["rm"] is None:
                        r["rm"] = (sim.now, s2)
                if cur_probe[0] is not None:
                    probe_dirty.add(cur_probe[0])
            elif kind == "probe":
                pid = op["_pid"]
                if api == "request":
                    raw.send(probe_id, [pid & 0xFF, 0xFF, 0x00])       # request for PGN 0xFF00 + pid, to the global address
                else:
                    raw.send(probe_id, [pid & 0xFF, pid >> 8, 0, 0, 0, 0, 0, 0])

        def mk_tcb(i):
            def cb(cookie):
                s = nxt()
                calls.append((sim.now, s, i, cookie))
                if isinstance(cookie, int) and 0 <= cookie < len(regs):
                    regs[cookie]["calls"].append((sim.now, s))
                    per = regs[cookie]["per"]
                    du = regs[cookie]["dur"]
                    if du > 0:
                        busy.append((sim.now, sim.now + du))
                        sk.FAKE_TIME.sleep(du)          # the callback takes time: the job thread is busy meanwhile
                else:
                    per = False
                if len(calls) > 200000:
                    raise RuntimeError("harness guard: more than 200000 timer calls")
                todo, pending[i] = pending[i], []
                for op in todo:
                    do(op, i)
                return per
            return cb

        def mk_scb(i):
            def cb(priority, pgn, sa, timestamp, data):
                s = nxt()
                pid = data[0] | (data[1] << 8) if len(data) >= 2 else None
                scalls.append((sim.now, s, i, pid))
                todo, spending[i] = spending[i], []
                for op in todo:
                    do(op, 10 + i)
                if sdur.get(i) and sdepth[0] < 3:
                    # the callback takes time: the receive context of the stack is busy, everything else goes on
                    sdepth[0] += 1
                    try:
                        sk.FAKE_TIME.sleep(sdur[i])
                    finally:
                        sdepth[0] -= 1
            return cb

        tcb = [mk_tcb(i) for i in range(NCB)]
        scb = [mk_scb(i) for i in range(NCB)]
        # request callbacks: (source, destination, requested PGN) - the probe number travels in the PGN's low byte
        rcb = [(lambda f: (lambda src, dest, pgn: f(6, 0xEA00, src, 0.0, [pgn & 0xFF, 0])))(scb[i]) for i in range(NCB)]

        # sequence numbers at the start and end of the delivery of every probe frame (a delivery may take time and other
        # operations may run meanwhile)
        windows = []
        orig_rx = st_.rx

        def rx(frame):
            if frame.can_id != probe_id:
                return orig_rx(frame)
            pid = frame.data[0] | (frame.data[1] << 8)
            s0 = nxt()
            try:
                return orig_rx(frame)
            finally:
                windows.append((pid, s0, nxt()))
        st_.rx = rx

        # wrap notify so that we know which probe a subscriber call belongs to
        t = 0.05
        npid = 0
        probes = {}
        for op in params["ops"]:
            t += op["gap"]
            op = dict(op)
            if op["op"] == "probe":
                npid += 1
                op["_pid"] = npid
            ctx = op.get("ctx", -1)
            if ctx is None or ctx < 0 or op["op"] == "probe":
                w.at(t, (lambda o: (lambda: do(o, -1)))(op))
            else:
                w.at(t, (lambda o, c: (lambda: (spending[c - 10] if c >= 10 else pending[c]).append(o)))(op, ctx))
        t_end = w.t0 + t + params["tail"]
        w.run_until(t_end)
        # let in-flight probe frames arrive
        alive = st_.alive()
        problems = w.liveness_problems()

        viol = []

        def V(kind, msg, site=""):
            viol.append({"kind": kind, "msg": msg, "bucket": "C12|%s|%s" % (kind, site)})

        for kind, detail, tt in problems:
            V("liveness-" + kind, "background thread problem %s %r at t=%.6f" % (kind, detail, tt - 1000))
        if not alive and not problems:
            V("liveness-thread-dead", "job thread is not alive at the horizon: %r" % (st_.dead_threads(),))

        tol = 1e-9
        max_live = 0
        # live registrations over time (for the non-triviality rule)
        evs = []
        for r in regs:
            end = r["rm"][0] if r["rm"] else (t_end if r["per"] else min(t_end, r["t"] + r["p"]))
            evs.append((r["t"], 1))
            evs.append((max(end, r["t"]), -1))
        live = 0
        for _, d in sorted(evs, key=lambda x: (x[0], -x[1])):
            live += d
            max_live = max(max_live, live)

        busy.sort()
        # the eps of a sleep inside a callback makes the callback end late, never early
        busy_ext = [(a, b + max(params["eps"]) + 2e-6) for (a, b) in busy]

        def justified(d, c):
            """Is a call at time c for a deadline d explained by scheduling latency plus time during which the job
            thread was busy running other (or its own earlier) callbacks?"""
            x = d
            changed = True
            while changed:
                changed = False
                for (a, b) in busy_ext:
                    if a <= x + L + tol and b > x:
                        x = b
                        changed = True
            return c <= x + L + tol

        if not any(k.startswith("liveness") for k in [v["kind"] for v in viol]):
            for r in regs:
                p = r["p"]
                ctxs = "cb" if any(e[4] >= 0 for e in executed) else "app"
                shape = "%s|%s" % ("periodic" if r["per"] else "oneshot", ctxs)
                if busy:
                    shape += "|slow-cb"
                rm_t, rm_s = r["rm"] if r["rm"] else (None, None)
                limit = t_end if rm_t is None else min(rm_t, t_end)
                prev_k = 0
                amb = False          # the previous call came after deadline prev_k + 1 too and may have served that one instead
                bad = False
                for n_call, (ct, cs) in enumerate(r["calls"]):
                    if rm_s is not None and cs > rm_s:
                        V("called-after-remove", "timer cb%d (registration %d, period %g) called at t=%.6f after "
                          "remove_timer returned at t=%.6f" % (r["cb"], r["id"], p, ct - 1000, rm_t - 1000), shape)
                        bad = True
                        break
                    if not r["per"] and n_call >= 1:
                        V("oneshot-called-again", "one-shot cb%d (registration %d) called %d times" %
                          (r["cb"], r["id"], len(r["calls"])), shape)
                        bad = True
                        break
                    # the deadline this call answers: the latest one not after the call
                    k = int((ct - r["t"] + tol) / p)
                    while r["t"] + (k + 1) * p <= ct + tol:
                        k += 1
                    while k >= 1 and r["t"] + k * p > ct + tol:
                        k -= 1
                    if k < 1:
                        V("early", "cb%d registration %d called at t=%.9f, %.9f s after its registration, period %g"
                          % (r["cb"], r["id"], ct - 1000, ct - r["t"], p), shape)
                        bad = True
                        break
                    was_amb, amb = amb, False
                    if k - 1 > prev_k and justified(r["t"] + (k - 1) * p, ct):
                        # deadline k-1 is still owed and a busy job thread explains why its call comes only now, after deadline k:
                        # this is the (late) call for k-1 - the one for k may follow at once - or already the one for k
                        k -= 1
                        amb = True
                    if k <= prev_k:
                        V("early", "cb%d registration %d (period %g, registered %.9f) called again at t=%.9f for the period already "
                          "served (call #%d): early or drifting" % (r["cb"], r["id"], p, r["t"] - 1000, ct - 1000, n_call + 1), shape)
                        bad = True
                        break
                    d = r["t"] + k * p
                    if not justified(d, ct):
                        V("late", "cb%d registration %d call #%d at t=%.9f, due %.9f, allowed lateness %.3g plus time the job thread "
                          "was busy in callbacks (period %g)" % (r["cb"], r["id"], n_call + 1, ct - 1000, d - 1000, L, p), shape)
                        bad = True
                        break
                    for ks in range(prev_k + 1, k):          # skipped periods must be explained by a busy job thread
                        if was_amb and ks == prev_k + 1:
                            continue                         # (may have been served by the previous call, see above)
                        if not justified(r["t"] + ks * p, ct):
                            V("missing", "cb%d registration %d (period %g): the call due at t=%.6f never happened (next call at "
                              "t=%.6f)" % (r["cb"], r["id"], p, r["t"] + ks * p - 1000, ct - 1000), shape)
                            bad = True
                            break
                    if bad:
                        break
                    prev_k = k
                if not bad and (r["per"] or not r["calls"]):
                    # calls still owed at the end of the observation / at removal
                    ks = prev_k + (2 if amb else 1)
                    d_next = r["t"] + ks * p
                    if d_next + L + tol < limit and not justified(d_next, limit):
                        V("missing", "cb%d registration %d (period %g, %s, registered t=%.6f) has %d calls; the call due at "
                          "t=%.6f never happened before t=%.6f" %
                          (r["cb"], r["id"], p, "periodic" if r["per"] else "one-shot", r["t"] - 1000, len(r["calls"]),
                           d_next - 1000, limit - 1000), shape)
            # subscriptions
            for (ct, cs, i, pid) in scalls:
                active = [r for r in subs if r["cb"] == i and r["seq"] < cs and (r["rm"] is None or r["rm"][1] > cs)]
                was = [r for r in subs if r["cb"] == i and r["seq"] < cs]
                if not active and was:
                    V("called-after-unsubscribe", "subscriber cb%d called at t=%.6f after unsubscribe returned"
                      % (i, ct - 1000), "sub")
                    break

            # a subscriber that stays registered over the whole delivery of a message is called for it - whatever other
            # callbacks subscribe or unsubscribe meanwhile; registrations that change during the delivery may or may not count
            if not viol:
                for (pid, s0, s1) in windows:
                    for i in range(NCB):
                        stable = sum(1 for r in subs if r["cb"] == i and r["seq"] < s0 and (r["rm"] is None or r["rm"][1] > s1))
                        unstable = sum(1 for r in subs if r["cb"] == i and not (r["seq"] < s0 and (r["rm"] is None or r["rm"][1] > s1))
                                       and r["seq"] < s1 and (r["rm"] is None or r["rm"][1] > s0))
                        got = sum(1 for (ct, cs, ci, cpid) in scalls if ci == i and s0 < cs < s1)
                        # (NOT judged: got < stable.  When a callback unsubscribes during a delivery the live list shifts and the
                        # next subscriber misses that message; the library's own DM14 code and the pinned test
                        # test_dm14_request_read_busy depend on exactly this dispatch order, no listed property forbids it -
                        # DESIGN.md 10)
                        if got > stable + unstable:
                            V("subscriber-called-too-often", "subscriber cb%d called %d times for message %d, %d registration(s)"
                              % (i, got, pid, stable + unstable), "sub")
                            break
                    else:
                        continue
                    break

        labels = [params["regime"], "api-" + params.get("sub_api", "ecu")]
        if any(0 <= e[4] < 10 for e in executed):
            labels.append("op-from-timer-callback")
        if any(e[2] == "rm" for e in executed):
            labels.append("remove")
        if any(e[2] == "rm" and e[4] == e[3] for e in executed):
            labels.append("self-remove")
        if any(e[2] == "unsub" for e in executed):
            labels.append("unsubscribe")
        if any(e[4] >= 10 for e in executed):
            labels.append("op-from-subscriber-callback")
        if sdur and scalls:
            labels.append("slow-subscriber")
        cbs = [r["cb"] for r in regs]
        if len(cbs) != len(set(cbs)):
            labels.append("duplicate-registration")
        if any(r["per"] for r in regs):
            labels.append("periodic")
        if 0.0 in params["eps"]:
            labels.append("eps-zero")
        if max_live >= 2:
            labels.append("two-live")
        if busy:
            labels.append("slow-callback")
        return {"violations": viol, "labels": labels, "nontrivial": max_live >= 2,
                "sample": {"ops": params["ops"], "eps": params["eps"], "timer_calls": len(calls)}}


CHECK = C12()
