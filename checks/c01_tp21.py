"""C01 - J1939-21 transport delivers every accepted message intact, exactly once.

Generated networks of 2-4 real stacks (1-2 CAs each, optional unfiltered ECU listener,
independent packets-per-CTS settings) exchange 1-8 overlapping messages; latencies per
receiver include 0 (reply processed re-entrantly inside the sender's send call).
Oracle: reference delivery multiset per listener (DESIGN.md 5/C01).
"""
from vlib import netmodel as N


class C01:
    ID = "C01"
    DLL = "j1939-21"
    LEVEL = "exploration"
    TECHNIQUE = ("property-based testing: generated multi-stack networks in virtual time vs. a reference delivery "
                 "model (multiset equality per listener)")
    RULE = ("Hypothesis builds a network of 2-4 real ECUs (1-2 address-holding CAs each, optional unfiltered ECU "
            "listener, max_cmdt_packets 1..255 per stack, per-receiver latency lists over {0,1us,50us,0.2,0.5,1,2.5,5 ms}, "
            "wake-up lateness/dispatch 0..1 ms) and 1-8 messages (0..1785 bytes, PDU1->CA, PDU1->255, PDU2, PDU1->unowned, "
            "from application, timer-callback or receive-callback context, send calls of a stack thread taking 0 / 0.1 / 0.5 ms, submit offsets 0..100 ms so transfers overlap; a busy (SA,DA) "
            "pair is reused only after the model says it is free); non-trivial = at least one multi-packet transfer was "
            "delivered; distinct = distinct parameter sets")
    ASSUMPTIONS = [
        "frames are delivered in one total bus order; per-receiver latency in [0, 5 ms]; no self-reception",
        "latency 0 with an idle receiver = delivery inside the sender's send call (synchronous backend / receive "
        "thread running while the sender is inside send_message)",
        "code runs atomically between blocking points (C08 varies pre-emption)",
        "application data is not sent on the transport/request/claim PGNs themselves",
    ]
    shrink_lists = ("msgs",)
    shrink_min = {"msgs": 1}
    BAM_DT = 0.05

    def strategy(self, tier):
        return N.net_strategy(self.DLL, allow_zero_latency=True)

    def examples(self, tier):
        return 1600 if tier == "quick" else 120000

    def enumerate(self, tier):
        return []

    def exhaustive(self, tier):
        return False

    def valid(self, p):
        return len(p.get("msgs", [])) >= 1

    def run_case(self, params):
        times = N.schedule(params, self.BAM_DT)
        w, stacks = N.build_world(params)
        viol = []

        def V(kind, msg, site=""):
            viol.append({"kind": kind, "msg": msg, "bucket": "%s|%s|%s" % (self.ID, kind, site)})

        try:
            results = {}
            N.submit_all(w, stacks, params, times, results)
            horizon = max(t + N.duration_bound(params, m, self.BAM_DT) for t, m in zip(times, params["msgs"])) + 2.0 + 0.5
            w.run_until(w.t0 + horizon)
            for kind, detail, tt in w.liveness_problems():
                V("liveness-" + kind, "%s %r at t=%.6f" % (kind, detail, tt - 1000))
            for stk in stacks:
                if not stk.alive() and not w.liveness_problems():
                    V("liveness-thread-dead", "%s: %r" % (stk.name, stk.dead_threads()))
            for mi, m in enumerate(params["msgs"]):
                r = results.get(mi)
                if r is None:
                    V("not-submitted", "message %d was never submitted (timer callback not run)" % mi, m["ctx"])
                elif r[1] is False and N.multi(params, m) and any(
                        m2.get("_retry_until") is not None and m2["src"] == m["src"] and N.dest_addr(params, m2) == N.dest_addr(params, m)
                        for m2 in params["msgs"]):
                    # a retrying call for the same pair may have got in first (a call from a timer callback can be late by the
                    # time the job thread spends writing frames): then this refusal is correct
                    pass
                elif r[1] is False:
                    V("refused-when-free", "send_pgn returned False for message %d (%s, %d bytes) although no "
                      "transfer is in progress on that pair" % (mi, m["kind"], m["pl"]["n"]), m["kind"])
                elif r[1] is not True:
                    V("send-raised", "send_pgn for message %d: %r" % (mi, r[1]), m["kind"])
            tag = "bam" if any(N.multi(params, m) and m["kind"] in ("bc1", "bc2") for m in params["msgs"]) else "x"
            N.judge_deliveries(params, stacks, results, V, self._tag(params))
            for stk in stacks:
                ps = stk.peek_sessions()
                if ps is not None and any(ps):
                    V("session-left", "%s: session tables not empty at the horizon (rcv,snd,mpg)=%r" % (stk.name, ps))
                    break
            for stk in stacks:
                if stk.swallowed:
                    V("exception-in-notify", "%s: %r" % (stk.name, stk.swallowed[:2]))
                    break
        finally:
            w.close()
        nmulti = sum(1 for mi, m in enumerate(params["msgs"]) if N.multi(params, m) and results.get(mi, (0, 0))[1] is True)
        delivered_multi = any(len(d[5] or b"") > 8 and not (len(d[5]) == 12 and self.DLL == "j1939-22") for s in stacks for d in s.deliveries)
        labels = ["stacks=%d" % len(params["stacks"])]
        if nmulti:
            labels.append("multi-packet")
        if nmulti >= 2:
            labels.append("multi>=2")
        if any(0.0 in s["lat"] for s in params["stacks"]):
            labels.append("zero-latency")
        if any(m["ctx"] == "timer" for m in params["msgs"]):
            labels.append("from-timer")
        if any(m["ctx"] == "on_rx" and not N.multi(params, m) for m in params["msgs"]):
            labels.append("from-rx-callback")
        if any(s.get("tx_time") for s in params["stacks"]):
            labels.append("send-call-takes-time")
        kinds = {m["kind"] for m in params["msgs"] if N.multi(params, m)}
        for k in sorted(kinds):
            labels.append("multi-" + k)
        if any(N.multi(params, m) and m["pl"]["n"] % 7 == 0 for m in params["msgs"]):
            labels.append("len%7==0")
        if any(s["max_cmdt"] > 1 for s in params["stacks"]):
            labels.append("window>1")
        pairs = set()
        for m in params["msgs"]:
            if m["kind"] == "p2p" and N.multi(params, m):
                pairs.add((tuple(m["src"]), tuple(m["dst"])))
        if any((b, a) in pairs for a, b in pairs):
            labels.append("bidirectional")
        return {"violations": viol, "labels": labels, "nontrivial": bool(nmulti and delivered_multi),
                "sample": {"stacks": [{k: s[k] for k in ("max_cmdt", "lat")} for s in params["stacks"]],
                           "msgs": [{"kind": m["kind"], "n": m["pl"]["n"], "t_ms": m["t"], "ctx": m["ctx"]}
                                    for m in params["msgs"]]}}

    def _tag(self, params):
        return "21" if self.DLL == "j1939-21" else "22"


CHECK = C01()
