"""C10 - transport capacity is conserved over any history of good and failed transfers.

Generated histories (1..40 steps) of outbound transfers with fates (clean, peer silent, peer
abort at step k, data packet lost, acknowledgement lost), inbound sessions from reference peers
on ANY session number (completed or abandoned), and waits.  A send is issued only when the
reference capacity model says a pair / session slot is free, so every call must be accepted;
afterwards the full advertised concurrency is started at once and must be accepted and
delivered, and one more call must be refused without emitting a frame.  DESIGN.md 5/C10.
"""
import collections
from hypothesis import strategies as st

from vlib import world as W
from vlib import refcodec as R
from vlib.refpeer import RefPeer

SA_S = 0x30
PEERS = [0x90, 0x91, 0x92]
PF = 0xB0
FATES = ["clean", "clean", "clean", "silent", "abort", "ignore_dt", "no_ack"]


def _strategy(dll):
    fd = dll == "j1939-22"
    size = st.integers(61, 400) if fd else st.integers(9, 120)
    # "late": a responder that missed a data frame gives up when its own receive time-out expires and sends an abort - about
    # when the stack's T3 expires too (offsets around 1.25 s so that the abort arrives before / while / after the stack
    # transmits its own time-out abort), or earlier (T1 = 0.75 s)
    late = st.one_of(st.none(), st.none(), st.sampled_from([0.5, 0.75]),
                     st.sampled_from([-0.003, -0.0025, -0.002, -0.0015, -0.001, -0.0007, -0.0005, -0.0003, 0.0, 0.0003]).map(lambda o: 1.25 + o))
    fate = st.builds(lambda f, k, lt: {"f": f, "k": k, "late": lt} if (f == "ignore_dt" and lt) else {"f": f, "k": k},
                     st.sampled_from(FATES), st.integers(0, 3), late)
    send = st.builds(lambda peer, kind, n, ft, gap, chain: {"op": "send", "peer": peer, "kind": kind, "n": n, "fate": ft, "gap": gap,
                                                             "chain": chain},
                     st.integers(0, 2), st.sampled_from(["rts", "rts", "rts", "bam"]), size, fate,
                     st.sampled_from([0.0, 0.0, 0.001, 0.01, 0.1, 0.5, 1.3, 3.2]), st.sampled_from([False, False, False, False, True]))
    # "abort_at": the peer gives its OWN transfer up that long after its RTS and says so with a Connection Abort naming that
    # transfer's PGN (an inbound session of the stack ends; its outbound sessions to that peer are none of its business)
    inbound = st.builds(lambda peer, kind, n, sess, stop, gap, ab: {"op": "inbound", "peer": peer, "kind": kind, "n": n,
                                                                     "session": sess, "stop_after": stop, "gap": gap,
                                                                     "abort_at": ab if kind == "rts" else None},
                        st.integers(0, 2), st.sampled_from(["rts", "rts", "bam"]), size,
                        st.integers(0, 15) if fd else st.just(0),
                        st.sampled_from([None, None, 0, 1, 2]), st.sampled_from([0.0, 0.0, 0.001, 0.01, 0.1, 0.5, 1.3]),
                        st.sampled_from([None, None, None, 0.0005, 0.01, 0.03, 0.05]))
    rnd = st.lists(st.one_of(send, send, inbound), min_size=1, max_size=40)
    # structured histories that reach the deep state "an inbound session ends (time-out, abort, completion) while an
    # outbound session is in flight, then another outbound session starts": inbound, wait, send, short wait, send ...
    def collide(a, b, sess, stop, g1, g2, n1, n2, tail):
        return [{"op": "inbound", "peer": a, "kind": "rts", "n": 200 if fd else 30, "session": sess, "stop_after": stop, "gap": 0.0},
                {"op": "send", "peer": b, "kind": "rts", "n": n1, "fate": {"f": "clean", "k": 0}, "gap": g1},
                {"op": "send", "peer": b, "kind": "rts", "n": n2, "fate": {"f": "clean", "k": 0}, "gap": g2}] + tail
    # (an abandoned inbound session times out T2 = 1.25 s after the CTS or T1 = 0.75 s after its last data packet)
    pattern = st.builds(collide, st.integers(0, 2), st.integers(0, 2), st.sampled_from([0, 0, 8, 1, 7, 15]) if fd else st.just(0),
                        st.sampled_from([0, 1, 2, None]), st.sampled_from([1.0, 1.1, 1.2, 1.24, 0.5, 0.6, 0.7, 0.74, 0.0, 0.01]),
                        st.sampled_from([0.02, 0.06, 0.15, 0.27, 0.3]), size, size,
                        st.lists(st.one_of(send, inbound), max_size=6))
    # second structured shape: an outbound transfer is in flight, an inbound session on a colliding number runs to its end
    # (or is abandoned) meanwhile, then another outbound transfer to the same peer starts while the first is still running
    def collide2(a, b, sess, stop, d1, d2, n1, n2, tail):
        return [{"op": "send", "peer": b, "kind": "rts", "n": n1, "fate": {"f": "clean", "k": 0}, "gap": 0.01},
                {"op": "inbound", "peer": a, "kind": "rts", "n": 130 if fd else 20, "session": sess, "stop_after": stop, "gap": d1},
                {"op": "send", "peer": b, "kind": "rts", "n": n2, "fate": {"f": "clean", "k": 0}, "gap": d2}] + tail
    pattern2 = st.builds(collide2, st.integers(0, 2), st.integers(0, 2), st.sampled_from([0, 0, 0, 1, 7, 8, 15]) if fd else st.just(0),
                         st.sampled_from([None, None, 0, 1]), st.sampled_from([0.0, 0.001, 0.01]),
                         st.sampled_from([0.02, 0.04, 0.08, 0.15, 0.3]), st.integers(300, 400) if fd else st.integers(60, 120), size,
                         st.lists(st.one_of(send, inbound), max_size=4))
    def collide3(b, sess, n1, n2, g, ab, tail):
        return [{"op": "inbound", "peer": b, "kind": "rts", "n": n1, "session": sess, "stop_after": 0, "gap": 0.0, "abort_at": ab},
                {"op": "send", "peer": b, "kind": "rts", "n": n2, "fate": {"f": "clean", "k": 0}, "gap": g, "chain": False}] + tail
    pattern3 = st.builds(collide3, st.integers(0, 2), st.sampled_from([0, 0, 0, 1]) if fd else st.just(0), size, size,
                         st.sampled_from([0.0, 0.0, 0.001, 0.01, 0.02]), st.sampled_from([0.0005, 0.001, 0.002, 0.005, 0.015, 0.03, 0.05]),
                         st.lists(st.one_of(send, inbound), max_size=4))
    ops = (st.one_of(rnd, rnd, pattern, pattern, pattern2, pattern2, pattern3, pattern3) if fd
           else st.one_of(rnd, rnd, pattern, pattern, pattern2, pattern2, pattern3))
    # third structured shape (whole case): a transfer whose responder misses a data packet and gives up about when the stack's
    # own T3 expires, window 1, frame writes that take time - both aborts cross on the bus
    lateoff = st.sampled_from([-0.003, -0.0025, -0.002, -0.0015, -0.001, -0.0007, -0.0005, -0.0003, 0.0, 0.0003])
    race_ops = st.builds(lambda peer, n, k, off, tail: [{"op": "send", "peer": peer, "kind": "rts", "n": n, "gap": 0.0, "chain": False,
                                                         "fate": {"f": "ignore_dt", "k": k, "late": 1.25 + off}}] + tail,
                         st.integers(0, 2), size, st.integers(1, 2), lateoff, st.lists(st.one_of(send, inbound), max_size=4))
    race = st.fixed_dictionaries({
        "dll": st.just(dll), "ops": race_ops, "reply_lat": st.sampled_from([[0.001, 0.003], [0.02]]),
        "sas": st.sampled_from([[0x30, 0x90, 0x91, 0x92], [0x00, 0x90, 0x91, 0x92], [0xFD, 0x7F, 0x80, 0x00]]),
        "tx_time": st.sampled_from([0.0005, 0.002, 0.002]), "max_cmdt": st.sampled_from([1, 2, 255]), "grants": st.just([1]),
        "lat": st.fixed_dictionaries({"S": st.lists(st.sampled_from([0.0002, 0.0005, 0.001, 0.0025]), min_size=1, max_size=2)}),
    })
    general = st.fixed_dictionaries({
        "dll": st.just(dll), "ops": ops,
        "reply_lat": st.sampled_from([[0.001, 0.003], [0.001, 0.003], [0.02], [0.08]]),
        "sas": st.sampled_from([[0x30, 0x90, 0x91, 0x92], [0x30, 0x90, 0x91, 0x92], [0x00, 0x90, 0x91, 0x92], [0x30, 0x00, 0x01, 0xFD],
                                [0xFD, 0x7F, 0x80, 0x00], [0x80, 0xF7, 0xF8, 0x01]]),
        "tx_time": st.sampled_from([0.0, 0.0, 0.0001, 0.0005, 0.002]),
        "app_timer": st.sampled_from([None, None, None, 0.4, 2.0]),
        "max_cmdt": st.sampled_from([1, 2, 3, 255]),
        "grants": st.lists(st.sampled_from([1, 2, 3, 255]), min_size=1, max_size=3),
        "lat": st.fixed_dictionaries({"S": st.lists(st.sampled_from([0.0002, 0.0005, 0.001, 0.0025]), min_size=1, max_size=2)}),
    })
    # fourth structured shape (whole case): the stack waits for a slow CTS of a peer that meanwhile gives up a transfer of its own
    own_abort = st.fixed_dictionaries({
        "dll": st.just(dll),
        "ops": st.builds(collide3, st.integers(0, 2), st.sampled_from([0, 0, 0, 1]) if fd else st.just(0), size, size,
                         st.sampled_from([0.0, 0.001, 0.003]), st.sampled_from([0.006, 0.01, 0.015]),
                         st.lists(st.one_of(send, inbound), max_size=3)),
        "reply_lat": st.sampled_from([[0.02], [0.08]]),
        "sas": st.sampled_from([[0x30, 0x90, 0x91, 0x92], [0x00, 0x90, 0x91, 0x92], [0x80, 0xF7, 0xF8, 0x01]]),
        "tx_time": st.sampled_from([0.0, 0.0005]), "max_cmdt": st.sampled_from([1, 3, 255]),
        "grants": st.lists(st.sampled_from([1, 2, 3, 255]), min_size=1, max_size=2),
        "lat": st.fixed_dictionaries({"S": st.lists(st.sampled_from([0.0002, 0.0005, 0.001, 0.0025]), min_size=1, max_size=2)}),
    })
    # fifth structured shape (whole case): a peer never answers; the application starts its next transfer to that peer just
    # while the stack is writing its T3 time-out abort (frame writes take 2 ms)
    def timeout_retry(peer, n1, n2, off, tail):
        return [{"op": "send", "peer": peer, "kind": "rts", "n": n1, "gap": 0.0, "chain": False, "fate": {"f": "silent", "k": 0}},
                {"op": "send", "peer": peer, "kind": "rts", "n": n2, "gap": 1.25 + off, "chain": False, "fate": {"f": "clean", "k": 0}}] + tail
    at_timeout = st.fixed_dictionaries({
        "dll": st.just(dll),
        "ops": st.builds(timeout_retry, st.integers(0, 2), size, size, st.sampled_from([0.0002, 0.0005, 0.001, 0.0015, 0.0025]),
                         st.lists(st.one_of(send, inbound), max_size=3)),
        "reply_lat": st.sampled_from([[0.001, 0.003], [0.02]]),
        "sas": st.sampled_from([[0x30, 0x90, 0x91, 0x92], [0x00, 0x90, 0x91, 0x92], [0xFD, 0x7F, 0x80, 0x00]]),
        "tx_time": st.sampled_from([0.002, 0.002, 0.0005]), "max_cmdt": st.sampled_from([1, 3, 255]),
        "grants": st.lists(st.sampled_from([1, 2, 255]), min_size=1, max_size=2),
        "lat": st.fixed_dictionaries({"S": st.lists(st.sampled_from([0.0002, 0.0005, 0.001, 0.0025]), min_size=1, max_size=2)}),
    })
    # sixth structured shape (whole case, J1939-22): an inbound session on the number the stack's own first session uses is
    # abandoned and times out (T1 after its last data packet / T2 after the CTS) while a slow own transfer is running; a further
    # own transfer to the same peer starts right afterwards
    def number_collision(a, b, sess, stop, n1, n2, g2, tail):
        g1 = 0.745 if stop in (1, 2) else 1.245
        return [{"op": "inbound", "peer": a, "kind": "rts", "n": 200, "session": sess, "stop_after": stop, "gap": 0.0, "abort_at": None},
                {"op": "send", "peer": b, "kind": "rts", "n": n1, "fate": {"f": "clean", "k": 0}, "gap": g1, "chain": False},
                {"op": "send", "peer": b, "kind": "rts", "n": n2, "fate": {"f": "clean", "k": 0}, "gap": g2, "chain": False}] + tail
    collision = st.fixed_dictionaries({
        "dll": st.just(dll),
        "ops": st.builds(number_collision, st.integers(0, 2), st.integers(0, 2), st.sampled_from([0, 0, 8]), st.sampled_from([0, 1, 2, None]),
                         st.integers(300, 400), size, st.sampled_from([0.02, 0.03, 0.05]), st.lists(st.one_of(send, inbound), max_size=3)),
        "reply_lat": st.sampled_from([[0.02], [0.08]]),
        "sas": st.sampled_from([[0x30, 0x90, 0x91, 0x92], [0x00, 0x90, 0x91, 0x92], [0x80, 0xF7, 0xF8, 0x01]]),
        "tx_time": st.sampled_from([0.0, 0.0005]), "max_cmdt": st.sampled_from([1, 2, 255]), "grants": st.sampled_from([[1], [2], [1, 2]]),
        "lat": st.fixed_dictionaries({"S": st.lists(st.sampled_from([0.0002, 0.0005, 0.001]), min_size=1, max_size=2)}),
    })
    if fd:
        return st.one_of(general, general, general, general, race, own_abort, at_timeout, collision)
    return st.one_of(general, general, general, general, race, own_abort)


class C10:
    ID = "C10"
    LEVEL = "exploration"
    TECHNIQUE = ("model-based property testing: generated transfer histories with injected fates against a reference "
                 "capacity model, followed by a full-concurrency probe (virtual time, reference peers)")
    RULE = ("Hypothesis draws, per data link layer, a history of 1..40 operations: outbound transfer to one of 3 reference peers "
            "or broadcast with a fate (clean / peer never answers / peer aborts at its k-th grant / k-th data packet lost, optionally followed by the peer's own time-out abort 0.5 / 0.75 / 1.247..1.2503 s later - i.e. "
            "before, while or after the stack transmits its own time-out abort (frame writes take 0..2 ms) - / "
            "final acknowledgement lost), inbound RTS-CTS or BAM session from a peer on any session number 0..15 completed or "
            "abandoned after 0-2 packets, gaps 0..3.2 s; one case in five is a structured 'race' (window 1, frame writes of 0.5-2 ms, a responder that misses a data "
            "packet and gives up around the stack's own T3); one send in five is started from inside a receive callback (e.g. the acknowledge notification of the previous "
            "transfer); a send is issued only when the model has a free pair/slot and must "
            "then return True; finally one transfer per pair (21) or 8 RTS/CTS + 4 BAM (22) are started in one instant and must "
            "all be accepted and decoded intact by the peers, one more must be refused without a frame; non-trivial = history "
            "with >= 1 failed fate or abandoned inbound session; distinct = distinct histories")
    ASSUMPTIONS = [
        "upper bounds of the reference capacity model: pair/slot busy for packets*(round trip)+margin (clean, or ended by a peer abort), T3=1.25 s after the "
        "last activity (silent/lost), 3 s (FD lost acknowledgement), plus 0.3 s margin",
        "reference peers keep to the standard's timing; fates are realised by the peer (ignoring a frame = loss)",
    ]
    shrink_lists = ("ops",)
    shrink_min = {"ops": 1}

    def strategy(self, tier):
        return st.one_of(_strategy("j1939-21"), _strategy("j1939-22"))

    def examples(self, tier):
        return 4000 if tier == "quick" else 250000

    def enumerate(self, tier):
        return []

    def exhaustive(self, tier):
        return False

    def run_case(self, p):
        fd = p["dll"] == "j1939-22"
        viol = []

        def V(kind, msg, site=""):
            viol.append({"kind": kind, "msg": msg, "bucket": "C10|%s|%s|%s" % (kind, "22" if fd else "21", site)})

        SA_S, *PEERS = p.get("sas", [0x30, 0x90, 0x91, 0x92])
        lat = {"S": p["lat"]["S"], "P0": [0.0005], "P1": [0.001], "P2": [0.0002]}
        w = W.World(latency=lat, wake_eps=[0.0, 1e-5], dispatch=[0.0, 1e-5])
        failed_fates = 0
        sent = []      # (op index, peer or None, kind, payload, fate, result)
        try:
            s = w.stack("S", dll=p["dll"], max_cmdt=p["max_cmdt"], tx_time=p.get("tx_time", 0.0))
            s.add_ca("s", 0x100, SA_S)
            s.listen_ca("s")
            if p.get("app_timer"):
                s.ecu.add_timer(p["app_timer"], lambda cookie: True)  # a cyclic application job on the same ECU
            peers = [RefPeer(w.bus, "P%d" % i, a, fd=fd, grants=p["grants"], reply_lat=p.get("reply_lat", [0.001, 0.003])) for i, a in enumerate(PEERS)]
            seg = 60 if fd else 7
            rt = 2 * 0.0025 + max(p.get("reply_lat", [0.003])) + 0.002 + 2 * p.get("tx_time", 0.0)
            # capacity model: list of (free_at) per resource
            pair_free = collections.defaultdict(float)    # 21: key = DA
            slots = {"rts": [], "bam": []}                 # 22: lists of free_at of sessions in flight
            cap = {"rts": 8, "bam": 4}

            def busy_for(kind, n, fate):
                packets = -(-n // seg)
                if kind == "bam":
                    return (packets + 2) * ((0.01 if fd else 0.05) + 0.001) + 0.3
                f = fate["f"]
                base = packets * rt + 0.05
                if f == "clean":
                    return base + 0.3 + (0.0 if not fd else 0.05)
                if f == "silent":
                    return 1.25 + 0.3
                if f == "abort":
                    return base + 0.05            # the peer has ended the transfer: the pair / slot is free as soon as the abort is in
                if f == "ignore_dt":
                    return base + 1.25 + 0.3
                return base + (3.0 if fd else 1.25) + 0.3     # no_ack

            t = 0.05
            peer_quiet = {}
            counter = [0]
            last_send = None
            done_ops = set()
            chained_n = [0]

            def payload(n):
                counter[0] += 1
                return bytes(W.make_payload({"n": n, "cls": "arith", "a": counter[0] * 7, "b": 1 + counter[0] % 5}))

            for oi, op in enumerate(p["ops"]):
                t += op["gap"]
                if op["op"] == "send":
                    kind = op["kind"]
                    fate = op["fate"] if kind == "rts" else {"f": "clean"}
                    da = PEERS[op["peer"]] if kind == "rts" else 255
                    # a responder that will still send its own time-out abort for an earlier transfer names that transfer by
                    # address pair, session number and PGN only: a new transfer that re-uses the number would be hit by it
                    # (inherent to the protocol, not the stack's doing) - the next transfer to that peer starts after it
                    if kind == "rts" and t < peer_quiet.get(op["peer"], 0.0):
                        t = peer_quiet[op["peer"]]
                    # wait (by construction) until the model has room
                    if fd:
                        live = sorted(x for x in slots[kind] if x > t)
                        if len(live) >= cap[kind]:
                            t = live[len(live) - cap[kind]] + 0.001
                        slots[kind] = [x for x in slots[kind] if x > t]
                        slots[kind].append(t + busy_for(kind, op["n"], fate))
                    else:
                        if pair_free[da] > t:
                            t = pair_free[da] + 0.001
                        pair_free[da] = t + busy_for(kind, op["n"], fate)
                    if kind == "rts" and fate.get("late"):
                        peer_quiet[op["peer"]] = t + (-(-op["n"] // seg)) * rt + 0.05 + fate["late"] + 0.02
                    data = payload(op["n"])
                    if fate["f"] != "clean":
                        failed_fates += 1
                    # "chain": the application starts this transfer from inside a receive callback (typically the one that reports
                    # the end-of-message acknowledge of the transfer started just before); if no callback comes it is sent later
                    # from the application context.  Modelled as in flight from the scheduled instant on (upper bound).
                    chained = bool(op.get("chain")) and last_send is not None and kind == "rts" and (fd or last_send != da)
                    last_send = da if kind == "rts" else last_send

                    def do(oi=oi, op=op, kind=kind, da=da, data=data, fate=fate):
                        if kind == "rts":
                            peers[op["peer"]].fates.append(dict(fate))
                        k0 = len(w.bus.log)
                        try:
                            r = s.cas["s"].send_pgn(0, PF, da, 6, list(data))
                        except Exception as e:  # noqa
                            r = "EXC:%s:%s" % (type(e).__name__, str(e)[:80])
                        if r is not True and kind == "rts" and peers[op["peer"]].fates:
                            peers[op["peer"]].fates.pop()
                        sent.append((oi, op["peer"] if kind == "rts" else None, kind, data, fate, r, w.sim.now))
                        done_ops.add(oi)

                    if chained:
                        def arm(oi=oi, do=do):
                            s.rx_hooks.append(lambda lname: do() if oi not in done_ops else None)
                            w.sim.schedule(w.sim.now + 1.5, lambda: do() if oi not in done_ops else None)
                        w.at(t, arm)
                        chained_n[0] += 1
                        if fd:
                            slots[kind][-1] += 1.5 + busy_for(kind, op["n"], fate)
                        else:
                            pair_free[da] += 1.5 + busy_for(kind, op["n"], fate)
                    else:
                        w.at(t, do)
                else:
                    if op.get("stop_after") is not None:
                        failed_fates += 1

                    def inbound(op=op):
                        pr = peers[op["peer"]]
                        data = payload(op["n"])
                        if op["kind"] == "rts":
                            ss = pr.originate_rts(SA_S, 0xC100, data, limit=255, dt_gap=0.001, session=op["session"] & (7 if False else 15))
                        else:
                            ss = pr.originate_bam(0xFE00 | op["peer"], data, gap=0.05 if not fd else 0.01, session=op["session"] & 15)
                        ss["stop_after"] = op.get("stop_after")
                        if op.get("abort_at") is not None and op["kind"] == "rts":
                            pr.abort_own(ss, op["abort_at"])
                    w.at(t, inbound)
            # settle
            t_settle = t + 5.0
            if fd:
                t_settle = max([t_settle] + [x + 0.5 for x in slots["rts"] + slots["bam"]])
            else:
                t_settle = max([t_settle] + [x + 0.5 for x in pair_free.values()])
            w.run_until(w.t0 + t_settle)
            # ---------------- final probe: the full advertised concurrency in one instant
            probe = []
            n_probe = 3 * seg + 5
            k0 = len(w.bus.log)
            if fd:
                for i in range(8):
                    d = payload(n_probe)
                    probe.append(("rts", i % 3, d, s.cas["s"].send_pgn(0, PF, PEERS[i % 3], 6, list(d))))
                for i in range(4):
                    d = payload(n_probe)
                    probe.append(("bam", None, d, s.cas["s"].send_pgn(0, PF, 255, 6, list(d))))
            else:
                for i in range(3):
                    d = payload(n_probe)
                    probe.append(("rts", i, d, s.cas["s"].send_pgn(0, PF, PEERS[i], 6, list(d))))
                d = payload(n_probe)
                probe.append(("bam", None, d, s.cas["s"].send_pgn(0, PF, 255, 6, list(d))))
            k1 = len(w.bus.log)
            extra_rts = s.cas["s"].send_pgn(0, PF, PEERS[0], 6, list(payload(n_probe)))
            extra_bam = s.cas["s"].send_pgn(0, PF, 255, 6, list(payload(n_probe)))
            k2 = len(w.bus.log)
            w.run_for(3.0 + (4 * 0.06 if not fd else 0.2) + (3.5 if fd else 0.5))
            live = w.liveness_problems()
            tables = s.peek_sessions()
            alive = s.alive()
            dead = s.dead_threads()
            msgs = [[(m[3], m[4], m[5]) for m in pr.messages] for pr in peers]
        finally:
            w.close()

        for k2_, detail, tt in live:
            V("liveness-" + k2_, "%s %r at t=%.3f" % (k2_, detail, tt - 1000))
        if not alive and not live:
            V("liveness-thread-dead", "job thread dead: %r" % (dead,))
        for (oi, peer, kind, data, fate, r, tt) in sent:
            if r is False:
                V("refused-when-free", "op %d: send_pgn(%s, %d bytes) returned False at t=%.3f although the capacity model has "
                  "a free %s" % (oi, kind, len(data), tt - 1000, "session slot" if fd else "address pair"), kind)
                break
            if r is not True:
                V("send-raised", "op %d: %r" % (oi, r), kind)
                break
        # clean transfers must arrive exactly once
        for (oi, peer, kind, data, fate, r, tt) in sent:
            if r is not True or fate["f"] != "clean":
                continue
            targets = [peer] if kind == "rts" else [0, 1, 2]
            for pi in targets:
                cnt = sum(1 for m in msgs[pi] if m[1] == data)
                if cnt != 1:
                    V("history-transfer-lost" if cnt == 0 else "history-transfer-duplicated",
                      "op %d: accepted %s transfer of %d bytes with a clean fate was decoded %d times by peer %d" %
                      (oi, kind, len(data), cnt, pi), kind)
                    break
            else:
                continue
            break
        for (kind, peer, d, r) in probe:
            if r is not True:
                V("probe-refused", "final probe: %s transfer refused (returned %r) although nothing is in flight - advertised "
                  "concurrency %s not available after the history" % (kind, r, "8 RTS/CTS + 4 BAM" if fd else "one per pair"), kind)
                break
        else:
            for (kind, peer, d, r) in probe:
                targets = [peer] if kind == "rts" else [0, 1, 2]
                bad = [pi for pi in targets if sum(1 for m in msgs[pi] if m[1] == d) != 1]
                if bad:
                    V("probe-not-delivered", "final probe: %s transfer accepted but decoded %d times by peer %d" %
                      (kind, sum(1 for m in msgs[bad[0]] if m[1] == d), bad[0]), kind)
                    break
        if extra_rts is not False:
            V("over-capacity-accepted", "send_pgn beyond the capacity (RTS/CTS) returned %r" % (extra_rts,), "rts")
        if extra_bam is not False:
            V("over-capacity-accepted", "send_pgn beyond the capacity (BAM) returned %r" % (extra_bam,), "bam")
        if k2 != k1:
            V("refused-call-emitted-frames", "the refused calls put %d frame(s) on the bus" % (k2 - k1))
        if tables is not None and any(tables):
            V("session-left", "session tables not empty at the end: %r" % (tables,))
        labels = ["22" if fd else "21"]
        if failed_fates:
            labels.append("failed-fate")
        if any(op["op"] == "inbound" for op in p["ops"]):
            labels.append("inbound")
        if chained_n[0]:
            labels.append("send-from-rx-callback")
        if any(op["op"] == "inbound" and op.get("stop_after") is not None for op in p["ops"]):
            labels.append("inbound-abandoned")
        fset = sorted({op["fate"]["f"] for op in p["ops"] if op["op"] == "send" and op["kind"] == "rts"})
        labels += ["fate-" + f for f in fset]
        return {"violations": viol, "labels": labels, "nontrivial": failed_fates > 0,
                "sample": {"dll": p["dll"], "ops": [{k: v for k, v in op.items()} for op in p["ops"][:8]], "n_ops": len(p["ops"])}}


CHECK = C10()
