"""C08 - transfer outcome does not depend on where reception pre-empts the job thread.

Schedule enumeration: the job thread of either stack is parked at its k-th traced source line
(for EVERY k executed during the transfer) for 0.2 / 1 / 5 ms of bus time while the rest of the
system - including frame reception on the same stack - keeps running.  Oracle: differential
against the un-pre-empted baseline (payload delivered intact exactly once, both sides idle,
threads alive, a follow-up transfer works).  DESIGN.md 5/C08.
"""
from hypothesis import strategies as st

from vlib import world as W
from vlib import simbus
from vlib import refcodec as R

SA_O, SA_R = 0x31, 0x52
PF = 0xC9
DURS = [0.0002, 0.001, 0.005]


def shapes():
    out = []
    for dll in ("j1939-21", "j1939-22"):
        out.append({"dll": dll, "mode": "bam", "packets": 3, "win": 1})
        for win in (1, 2, 255):
            out.append({"dll": dll, "mode": "rts", "packets": 4 if win != 2 else 5, "win": win})
        # two transfers of one originator at the same time (to two CAs of the responder stack): a frame of one session is
        # handled while the job thread is part-way through its pass over BOTH sessions
        out.append({"dll": dll, "mode": "rts2", "packets": 3, "win": 1})
        out.append({"dll": dll, "mode": "rts+bam", "packets": 3, "win": 255})
        # receiving role: a broadcast that its originator abandoned after the first packet times out in the job thread while
        # the originator's next (complete) announcement arrives 1 ms after that deadline
        out.append({"dll": dll, "mode": "bam_rx", "packets": 3, "win": 1})
    return out


class C08:
    ID = "C08"
    LEVEL = "exploration"
    TECHNIQUE = ("schedule enumeration under a harness-owned scheduler: every traced source line of the job thread as a "
                 "pre-emption point (sys.settrace), differential oracle against the un-pre-empted run; pairs of "
                 "pre-emptions sampled with Hypothesis")
    RULE = ("a case is (transfer shape, job thread, pre-emption duration) - shapes: broadcast, RTS/CTS with windows 1/2/all, two "
            "transfers at once, RTS/CTS next to a broadcast, and (receiving role) a broadcast its originator abandoned whose T1 "
            "expires 1 ms before the originator's next announcement arrives, on both data link layers; inside it the baseline run counts the L source "
            "lines the thread executes from submission to the horizon and then one run per k in 0..L-1 parks the thread at "
            "line k for the duration (exhaustive single pre-emption); Hypothesis additionally draws runs with two "
            "pre-emptions (same or different threads) and other latency lists; 'subruns' counts runs; non-trivial = a run "
            "in which a frame was delivered to the pre-empted stack while its thread was parked; distinct = distinct "
            "(shape, thread, k, d); exhaustive refers to single pre-emptions of the listed shapes")
    ASSUMPTIONS = [
        "pre-emption granularity is a source line of the stack's own modules (bytecode-level interleavings are not explored)",
        "the thread that feeds received frames in runs to completion while the job thread is parked",
        "parking for <= 5 ms never legitimately triggers a protocol timeout (all are >= 200 ms)",
        "'both sides idle afterwards' is judged 0.1 s + the parking time after the instant the un-pre-empted run became idle",
    ]
    shrink_lists = ("pre",)

    def strategy(self, tier):
        lat = st.lists(st.sampled_from([1e-6, 50e-6, 0.0002, 0.0005, 0.001, 0.0025]), min_size=1, max_size=3)
        pre = st.lists(st.tuples(st.integers(0, 1), st.integers(0, 3000), st.sampled_from(DURS)), min_size=2, max_size=2)
        return st.builds(lambda sh, lo, lr, pre: dict(sh, lat={"O": lo, "R": lr}, pre=[list(x) for x in pre], mode2="pairs"),
                         st.sampled_from(shapes()), lat, lat, pre)

    def examples(self, tier):
        return 200 if tier == "quick" else 150000

    def enumerate(self, tier):
        out = []
        for sh in shapes():
            for th in (0, 1):
                for d in DURS:
                    out.append(dict(sh, lat={"O": [0.0005, 0.0002], "R": [0.0002, 0.001]}, thread=th, d=d, mode2="all-k"))
        return out

    def exhaustive(self, tier):
        return True

    def coverage_note(self, tier):
        return ("exhaustive = every single pre-emption point (traced line) of both job threads for the %d listed shapes "
                "and 3 durations; double pre-emptions are sampled" % len(shapes()))

    def _one_rx(self, p, pre, t_follow=None):
        """Shape bam_rx: node X (raw) announces a broadcast, sends its first packet and gives it up; the receive session of stack R
        times out T1 = 0.75 s later - and 1 ms after that deadline X's next announcement arrives, followed by all its packets."""
        fd = p["dll"] == "j1939-22"
        seg = 60 if fd else 7
        size = seg * (p["packets"] - 1) + 3
        SA_X = 0x77
        pgn = PF << 8
        pre_spec = [{"thread": t, "k": k, "d": d} for t, k, d in pre]
        lat_r = 0.0005
        w = W.World(latency={"O": p["lat"]["O"], "R": [lat_r]}, wake_eps=[0.0, 1e-5], dispatch=[0.0, 1e-5], preempt=pre_spec, trace=True)
        obs = {"src": SA_X}
        try:
            o = w.stack("O", dll=p["dll"], max_cmdt=255)
            r = w.stack("R", dll=p["dll"], max_cmdt=p["win"])
            o.add_ca("o", 0x100, SA_O)
            r.add_ca("r", 0x200, SA_R)
            r.add_ca("r2", 0x201, SA_R + 1)
            o.listen_ca("o")
            r.listen_ca("r")
            r.listen_ca("r2")
            x = simbus.RawNode(w.bus, "X")
            data1 = W.make_payload({"n": size, "cls": "arith", "a": 1, "b": 7})
            data = W.make_payload({"n": size, "cls": "pos", "seg": seg})
            gap = 0.011 if fd else 0.051

            def announce(d):
                if fd:
                    x.send(R.mk_id(7, 0, 0x4D, 255, SA_X), R.fd_bam(1, len(d), p["packets"], pgn), fd=True)
                else:
                    x.send(R.mk_id(7, 0, 0xEC, 255, SA_X), R.tp_bam(len(d), p["packets"], pgn))

            def packet(d, i):
                chunk = bytes(d[(i - 1) * seg:i * seg])
                if fd:
                    x.send(R.mk_id(7, 0, 0x4E, 255, SA_X), R.fd_dt(1, i, chunk), fd=True)
                    if i == p["packets"]:
                        x.send(R.mk_id(7, 0, 0x4D, 255, SA_X), R.fd_eoms(1, len(d), p["packets"], pgn), fd=True)
                else:
                    x.send(R.mk_id(7, 0, 0xEB, 255, SA_X), R.tp_dt(i, chunk))
            t1 = 0.05 + gap                       # the abandoned broadcast's only packet
            w.at(0.05, lambda: announce(data1))
            w.at(t1, lambda: packet(data1, 1))
            deadline = t1 + lat_r + 0.75          # T1 after that packet reached R
            t2 = deadline + 0.001 - lat_r         # the next announcement reaches R 1 ms after the deadline
            w.at(deadline - 0.002, lambda: setattr(w.sim, "trace_armed", True))
            w.at(t2, lambda: announce(data))
            for i in range(1, p["packets"] + 1):
                w.at(t2 + i * gap, (lambda i: (lambda: packet(data, i)))(i))
            t_done = t2 + (p["packets"] + 1) * gap + 0.01
            if t_follow is None:
                w.run_until(w.t0 + t_done)
                obs["t_idle"] = w.sim.now - w.t0
            else:
                w.run_until(w.t0 + max(t_follow, t_done))
            w.sim.trace_armed = False
            obs["lines"] = dict(w.sim.line_counts)
            obs["r1"] = True
            obs["deliv"] = [(d[3], d[4], d[5]) for d in r.deliveries if d[3] == pgn and d[1] == "r"]
            obs["delivB"], obs["rB"], obs["dataB"] = [], True, b""
            obs["data"] = bytes(data)
            obs["tables"] = (o.peek_sessions(), r.peek_sessions())
            obs["preempts"] = [e for e in w.sim.obs if e[1] == "preempt"]
            hit = False
            for (t, _, det) in obs["preempts"]:
                stk = o if det[0] == 0 else r
                if any(t <= tr <= t + det[2] for tr, _ in stk.received):
                    hit = True
            obs["hit"] = hit
            # follow-up: a broadcast of the other library stack still arrives
            nd = len(r.deliveries)
            data2 = W.make_payload({"n": size, "cls": "arith", "a": 5, "b": 3})
            try:
                obs["r2"] = o.cas["o"].send_pgn(0, PF, 255, 6, list(data2))
            except Exception as e:  # noqa
                obs["r2"] = "EXC:%r" % (e,)
            w.run_for((p["packets"] + 3) * 0.06 + 0.5)
            obs["deliv2"] = [(d[3], d[4], d[5]) for d in r.deliveries[nd:] if d[1] == "r"]
            obs["data2"] = bytes(data2)
            obs["live"] = w.liveness_problems()
            obs["alive"] = o.alive() and r.alive()
            obs["dead"] = o.dead_threads() + r.dead_threads()
        finally:
            w.close()
        return obs

    def _one(self, p, pre, t_follow=None):
        if p["mode"] == "bam_rx":
            return self._one_rx(p, pre, t_follow)
        fd = p["dll"] == "j1939-22"
        seg = 60 if fd else 7
        size = seg * (p["packets"] - 1) + 3
        if not fd and size < 9:
            size = 9
        pre_spec = [{"thread": t, "k": k, "d": d} for t, k, d in pre]
        w = W.World(latency=p["lat"], wake_eps=[0.0, 1e-5], dispatch=[0.0, 1e-5], preempt=pre_spec, trace=True)
        obs = {}
        try:
            o = w.stack("O", dll=p["dll"], max_cmdt=255)
            r = w.stack("R", dll=p["dll"], max_cmdt=p["win"])
            o.add_ca("o", 0x100, SA_O)
            r.add_ca("r", 0x200, SA_R)
            r.add_ca("r2", 0x201, SA_R + 1)
            o.listen_ca("o")
            r.listen_ca("r")
            r.listen_ca("r2")
            da = 255 if p["mode"] == "bam" else SA_R
            data = W.make_payload({"n": size, "cls": "pos", "seg": seg})
            dataB = W.make_payload({"n": size + seg, "cls": "arith", "a": 9, "b": 5})
            res = {}

            def submit():
                w.sim.trace_armed = True
                res["r1"] = o.cas["o"].send_pgn(0, PF, da, 6, list(data))
                if p["mode"] == "rts2":
                    res["rB"] = o.cas["o"].send_pgn(0, PF + 1, SA_R + 1, 6, list(dataB))
                elif p["mode"] == "rts+bam":
                    res["rB"] = o.cas["o"].send_pgn(0, PF + 1, 255, 6, list(dataB))
            w.at(0.05, submit)
            horizon = w.t0 + 0.05 + (p["packets"] + 3) * 0.06 + 0.5 + (3.2 if fd and p["mode"] in ("rts", "rts2", "rts+bam") else 0)
            if t_follow is None:
                # baseline: measure when both sides are idle again (when the tables are readable)
                w.run_until(w.t0 + 0.051)
                while w.sim.now < horizon:
                    po, pr = o.peek_sessions(), r.peek_sessions()
                    if po is None or pr is None:
                        w.run_until(horizon)
                        break
                    need = 1 if p["mode"] in ("bam", "rts") else (2 if p["mode"] == "rts2" else 3)
                    if not any(po) and not any(pr) and len(r.deliveries) >= need:
                        break
                    w.run_for(0.005)
                obs["t_idle"] = w.sim.now - w.t0
            else:
                w.run_until(w.t0 + t_follow)
            w.sim.trace_armed = False
            obs["lines"] = dict(w.sim.line_counts)
            obs["r1"] = res.get("r1")
            obs["deliv"] = [(d[3], d[4], d[5]) for d in r.deliveries if d[3] == (PF << 8) and d[1] == "r"]
            obs["delivB"] = [(d[1], d[3], d[4], d[5]) for d in r.deliveries if d[3] == ((PF + 1) << 8)]
            obs["rB"] = res.get("rB")
            obs["dataB"] = bytes(dataB)
            obs["data"] = bytes(data)
            obs["tables"] = (o.peek_sessions(), r.peek_sessions())
            obs["preempts"] = [x for x in w.sim.obs if x[1] == "preempt"]
            # did a frame reach the pre-empted stack while it was parked?
            hit = False
            for (t, _, det) in obs["preempts"]:
                stk = o if det[0] == 0 else r
                if any(t <= tr <= t + det[2] for tr, _ in stk.received):
                    hit = True
            obs["hit"] = hit
            nd = len(r.deliveries)
            data2 = W.make_payload({"n": size, "cls": "arith", "a": 5, "b": 3})
            try:
                obs["r2"] = o.cas["o"].send_pgn(0, PF, da, 6, list(data2))
            except Exception as e:  # noqa
                obs["r2"] = "EXC:%r" % (e,)
            w.run_for((p["packets"] + 3) * 0.06 + 0.5)
            obs["deliv2"] = [(d[3], d[4], d[5]) for d in r.deliveries[nd:] if d[1] == "r"]
            obs["data2"] = bytes(data2)
            obs["live"] = w.liveness_problems()
            obs["alive"] = o.alive() and r.alive()
            obs["dead"] = o.dead_threads() + r.dead_threads()
        finally:
            w.close()
        return obs

    def _judge(self, p, pre, obs, V):
        site = "%s|%s|w%d" % ("22" if p["dll"] == "j1939-22" else "21", p["mode"], p["win"])
        where = ""
        if obs["preempts"]:
            det = obs["preempts"][0][2]
            where = "%s:%d" % (det[3], det[4])
        pgn = PF << 8
        for k2, detail, tt in obs["live"]:
            V("liveness-" + k2, "%s %r at t=%.4f (pre-empted at %s)" % (k2, detail, tt - 1000, where), site)
        if not obs["alive"] and not obs["live"]:
            V("thread-dead", "job thread dead: %r (pre-empted at %s)" % (obs["dead"], where), site)
        if obs["r1"] is not True:
            V("send-refused", "send_pgn returned %r" % (obs["r1"],), site)
        got = [d for d in obs["deliv"] if d[0] == pgn and d[1] == obs.get("src", SA_O)]
        if len(got) != 1:
            V("not-delivered" if not got else "delivered-twice", "payload delivered %d times (baseline: once); job thread "
              "pre-empted at %s" % (len(got), where), site)
        elif got[0][2] != obs["data"]:
            V("corrupt", "payload differs from what was sent (pre-empted at %s)" % where, site)
        if len(obs["deliv"]) != len(got):
            V("invented-delivery", "unrelated delivery at the receiver", site)
        if p["mode"] in ("rts2", "rts+bam"):
            want = 1 if p["mode"] == "rts2" else 2          # the broadcast reaches both CAs of the responder stack
            gb = [d for d in obs["delivB"] if d[3] == obs["dataB"]]
            if obs["rB"] is not True:
                V("send-refused", "second send_pgn returned %r" % (obs["rB"],), site)
            elif len(gb) != want or len(obs["delivB"]) != want:
                V("not-delivered" if len(gb) < want else "delivered-twice", "the concurrent second transfer was delivered %d times "
                  "(expected %d); job thread pre-empted at %s" % (len(gb), want, where), site + "|second")
        to, tr = obs["tables"]
        if (to is not None and any(to)) or (tr is not None and any(tr)):
            V("session-stuck", "session tables still occupied (%r %r) 0.1 s + the pre-emption time after the moment the "
              "un-pre-empted run was idle (pre-empted at %s)" % (to, tr, where), site)
        if obs["r2"] is not True:
            V("followup-refused", "follow-up send_pgn returned %r (pre-empted at %s)" % (obs["r2"], where), site)
        else:
            g2 = [d for d in obs["deliv2"] if d[0] == pgn and d[1] == SA_O]
            if len(g2) != 1 or g2[0][2] != obs["data2"]:
                V("followup-not-delivered", "follow-up transfer delivered %d times (pre-empted at %s)" % (len(g2), where), site)

    def run_case(self, p):
        viol = []
        subruns = 0
        hits = 0
        sigs = []

        def mkV(pre):
            def V(kind, msg, site=""):
                pp = {k: v for k, v in p.items() if k not in ("thread", "d")}
                pp["mode2"] = "pairs"
                pp["pre"] = [list(x) for x in pre]
                pp["exact"] = True
                viol.append({"kind": kind, "msg": ("[pre-empt %r] " % (pre,)) + msg, "bucket": "C08|%s|%s" % (kind, site),
                             "params": pp})
            return V

        base = self._one(p, [])
        subruns += 1
        self._judge(p, [], base, mkV([]))
        L = base["lines"]
        if p["mode2"] == "all-k":
            th = p["thread"]
            for k in range(L.get(th, 0)):
                pre = [(th, k, p["d"])]
                obs = self._one(p, pre, base["t_idle"] + p["d"] + 0.1)
                subruns += 1
                self._judge(p, pre, obs, mkV(pre))
                if obs["hit"]:
                    hits += 1
                    sigs.append((p["dll"], p["mode"], p["win"], th, k, p["d"]))
        else:
            pre = []
            for t, k, d in p["pre"]:
                n = L.get(t, 0)
                if n:
                    pre.append((t, k if p.get("exact") else k % n, d))
            obs = self._one(p, pre, base["t_idle"] + sum(x[2] for x in pre) + 0.1)
            subruns += 1
            self._judge(p, pre, obs, mkV(pre))
            if obs["hit"]:
                hits += 1
                sigs.append((p["dll"], p["mode"], p["win"], tuple(pre)))
        labels = ["%s-%s-w%d" % ("22" if p["dll"] == "j1939-22" else "21", p["mode"], p["win"]), p["mode2"]]
        return {"violations": viol, "labels": labels, "nontrivial": hits > 0, "subruns": subruns,
                "nontrivial_sigs": sigs, "sig": ("case", p.get("dll"), p.get("mode"), p.get("win"), p.get("thread"), p.get("d"), str(p.get("pre"))),
                "extra": {"runs_with_frame_during_preemption": hits, "lines_thread0": L.get(0, 0), "lines_thread1": L.get(1, 0)},
                "sample": {"shape": {k: p[k] for k in ("dll", "mode", "packets", "win")}, "mode": p["mode2"],
                           "thread": p.get("thread"), "d": p.get("d"), "pre": p.get("pre"), "baseline_lines": L}}


CHECK = C08()
