"""Registry of property checks: get_check('C12') -> check object."""
import importlib

MODULES = {
    "C01": "c01_tp21", "C02": "c02_tp22", "C03": "c03_wire", "C04": "c04_claim", "C05": "c05_routing",
    "C06": "c06_loss", "C07": "c07_robust", "C08": "c08_preempt", "C09": "c09_flow", "C10": "c10_capacity",
    "C11": "c11_multipg", "C12": "c12_timers", "C13": "c13_sendguard", "C14": "c14_request",
    "C15": "c15_codec", "C16": "c16_dm1", "C17": "c17_dm14", "C18": "c18_dm14err", "C19": "c19_intruder",
}
_cache = {}


def get_check(cid):
    if cid not in _cache:
        mod = importlib.import_module("checks." + MODULES[cid])
        _cache[cid] = mod.CHECK
    return _cache[cid]
