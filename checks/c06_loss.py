"""C06 - lost frames or a vanished peer end a transfer cleanly, never with corrupt data.

Fault enumeration: for every transfer shape (BAM / RTS-CTS, J1939-21 / -22, 2..12 packets,
windows 1,2,3,all) a fault-free baseline yields N bus frames; then for EVERY k in 1..N:
(i) frame k is lost, (ii) the originator is silent from frame k on, (iii) the responder is
silent from frame k on.  After the time bound the peer is reconnected and a fresh transfer on
the same address pair must be accepted and delivered intact.  DESIGN.md 5/C06.
"""
from hypothesis import strategies as st

from vlib import world as W
from vlib import simbus
from vlib import refcodec as R

SA_O, SA_R = 0x21, 0x42
PF = 0xD3
WINDOWS = [1, 2, 3, 255]
LAT_DEFAULT = {"O": [0.0005, 0.001], "R": [0.0002, 0.0025]}


def shapes():
    out = []
    for dll in ("j1939-21", "j1939-22"):
        for n in range(2, 13):
            out.append({"dll": dll, "mode": "bam", "packets": n, "win_o": 1, "win_r": 1})
            for wnd in WINDOWS:
                out.append({"dll": dll, "mode": "rts", "packets": n, "win_o": 255, "win_r": wnd})
    return out


def size_of(p):
    seg = 60 if p["dll"] == "j1939-22" else 7
    return seg * (p["packets"] - 1) + p.get("resid", seg)


class C06:
    ID = "C06"
    LEVEL = "fault_enumeration"
    TECHNIQUE = ("fault enumeration in virtual time: every frame-loss / peer-silence point of every transfer shape, "
                 "shapes' payloads and latencies drawn by Hypothesis; oracle = exact-or-nothing + time bound + abort + recovery")
    RULE = ("a case is one transfer shape (110 shapes: {BAM,RTS/CTS} x {J1939-21,-22} x 2..12 packets x responder window "
            "{1,2,3,all}) with a payload/latency draw; inside a case the fault-free run gives N bus frames and then every "
            "k in 1..N is run three times (frame k lost / originator silent from k / responder silent from k), each followed "
            "by reconnection and a fresh transfer on the same pair; in about half of the cases the originator's application is impatient: "
            "it has one or six further messages of the same PGN and length (always its newest value) and calls send_pgn every "
            "0.7 / 11 / 30 / 100 ms until each is accepted - every delivery must then be exactly one of the messages sent, each at "
            "most once (time bound and abort oracles are not applied to these cases); 'subruns' counts those runs; non-trivial = the case "
            "executed at least one faulty sub-run in which the transfer did not complete; distinct = distinct (shape, draw); "
            "exhaustive = every k and fault kind of every listed shape")
    ASSUMPTIONS = [
        "a silent node keeps running (its background thread still times out) but neither its frames reach the bus nor "
        "bus frames reach it",
        "time bound judged as: tables empty / pair usable no later than (last frame activity of the exchange + 1.25 s, "
        "+3 s when an FD originator waits for the end-of-message acknowledge) + 0.1 s",
        "an Abort is required from a side only while it still waits for a CTS with data outstanding (originator) or "
        "for outstanding data packets (responder); it is accepted but not required in the end-of-message phases",
    ]
    shrink_lists = ()

    def strategy(self, tier):
        lat = st.lists(st.sampled_from(simbus.LATENCY_GRID[1:]), min_size=1, max_size=3)
        return st.builds(
            lambda sh, resid, cls, a, lo, lr, eps, sas, tx, tm, rt: dict(sh, resid=resid, cls=cls, a=a, lat={"O": lo, "R": lr}, eps=eps, sas=sas,
                                                                       tx_time=tx, app_timer=tm, retry=rt),
            st.sampled_from(shapes()), st.integers(1, 60), st.sampled_from(["pos", "ff", "zero", "arith"]),
            st.integers(0, 255), lat, lat, st.lists(st.sampled_from([0.0, 1e-5, 1e-3]), min_size=1, max_size=2),
            st.sampled_from([[0x21, 0x42], [0x21, 0x42], [0x00, 0x42], [0x21, 0x00], [0x01, 0xFD], [0xFD, 0x80], [0xF8, 0x7F]]), st.sampled_from([0.0, 0.0, 0.0001, 0.0005]),
            # a cyclic application timer (e.g. a DM1 cycle) on either ECU: [period, on which stack]
            st.sampled_from([None, None, [0.4, "O"], [1.0, "R"], [2.0, "O"], [2.0, "R"], [0.7, "both"]]),
            # an impatient application: it has a second message of the same PGN and length and calls send_pgn every so many
            # seconds until the call is accepted (so the next transfer starts as soon as the originator has given the first one up,
            # possibly before the responder has)
            st.sampled_from([None, None, 0.03, 0.1, [0.03, 6], [0.1, 6], [0.011, 6], [0.0007, 6], [0.0007, 6]]))

    def examples(self, tier):
        return 60 if tier == "quick" else 20000

    def enumerate(self, tier):
        out = []
        for i, sh in enumerate(shapes()):
            seg = 60 if sh["dll"] == "j1939-22" else 7
            out.append(dict(sh, resid=[seg, 1, seg - 1, 3][i % 4], cls=["pos", "ff", "arith", "zero"][(i // 4) % 4], a=i,
                            lat=LAT_DEFAULT, eps=[0.0, 1e-5],
                            sas=[[0x21, 0x42], [0x00, 0x42], [0x21, 0x00], [0xFD, 0x01]][(i // 3) % 4],
                            app_timer=[None, None, [2.0, "O"], None, [2.0, "R"], [0.7, "both"]][i % 6],
                            retry=[None, None, None, 0.1, None, None, [0.03, 6], None, [0.0007, 6]][i % 9]))
        return out

    def exhaustive(self, tier):
        return True

    def coverage_note(self, tier):
        return "exhaustive over k (every bus frame of the fault-free exchange) and the three fault kinds, per listed shape"

    # ------------------------------------------------------------------ one run
    def _one(self, p, fault):
        """fault = None | ("drop"|"osilent"|"rsilent", k).  Returns dict of observations."""
        fd = p["dll"] == "j1939-22"
        seg = 60 if fd else 7
        resid = min(p.get("resid", seg), seg)
        size = seg * (p["packets"] - 1) + max(1, resid)
        if not fd and size < 9:
            size = 9
        kw = {}
        if fault is not None:
            kind, k = fault
            if kind == "drop":
                kw["drop"] = [k]
            elif kind == "osilent":
                kw["silence"] = {"O": k}
            else:
                kw["silence"] = {"R": k}
        SA_O, SA_R = p.get("sas", [0x21, 0x42])
        w = W.World(latency=p["lat"], wake_eps=p["eps"], dispatch=[0.0, 1e-5], **kw)
        obs = {"viol": []}
        try:
            o = w.stack("O", dll=p["dll"], max_cmdt=p["win_o"], tx_time=p.get("tx_time", 0.0))
            r = w.stack("R", dll=p["dll"], max_cmdt=p["win_r"], tx_time=p.get("tx_time", 0.0))
            o.add_ca("o", 0x100, SA_O)
            r.add_ca("r", 0x200, SA_R)
            if p.get("app_timer"):
                per, where = p["app_timer"]
                for nm, stk in (("O", o), ("R", r)):
                    if where in (nm, "both"):
                        stk.ecu.add_timer(per, lambda cookie: True)
            o.listen_ca("o")
            r.listen_ca("r")
            da = 255 if p["mode"] == "bam" else SA_R
            data = W.make_payload({"n": size, "cls": p["cls"], "a": p["a"], "seg": seg})
            res = {}
            w.at(0.05, lambda: res.__setitem__("r1", o.cas["o"].send_pgn(0, PF, da, 6, list(data))))
            retry = p.get("retry")
            # (a number: one further message; [period, n]: the application always sends its newest value - n further messages,
            # each as soon as send_pgn accepts again)
            retry_n = 1
            if isinstance(retry, (list, tuple)):
                retry, retry_n = retry
            data_b = W.make_payload({"n": size, "cls": "arith", "a": p["a"] + 3, "b": 11})
            if bytes(data_b) == bytes(data):
                data_b[0] ^= 0x55
            # (position-coded contents: a repeated or misplaced packet shows even inside one message)
            stream = [list(data_b)] + [W.make_payload({"n": size, "cls": "pos", "a": (0x25 * i + 0x41) & 0xFF, "seg": seg}) for i in range(1, retry_n)]
            stream = [m for m in stream if bytes(m) != bytes(data)]
            accepted = []
            if retry:
                def poll():
                    if res.get("stop_poll") or len(accepted) >= len(stream):
                        return
                    try:
                        ok = o.cas["o"].send_pgn(0, PF, da, 6, list(stream[len(accepted)]))
                    except Exception as e:  # noqa
                        ok = "EXC:%r" % (e,)
                    if ok is True:
                        accepted.append(w.sim.now)
                    if ok in (True, False) and w.sim.now < w.t0 + (14.0 if retry >= 0.01 else 5.0):
                        w.at(w.sim.now - w.t0 + retry, poll)
                    res["rb"] = ok if "rb" not in res or ok is not False else res["rb"]
                w.at(0.05 + retry, poll)
            bound = 1.25 + (3.0 if (fd and p["mode"] == "rts") else 0.0) + 0.1
            # run until the exchange has been quiet for the bound
            w.run_until(w.t0 + 0.06)
            for _ in range(400):
                last = max([e.t for e in w.bus.log[-1:]] + [d[0] for d in w.bus.discarded[-1:]] + [w.t0 + 0.05])
                if w.sim.now - last >= bound:
                    break
                w.run_until(min(last + bound, w.sim.now + 0.5) if last + bound > w.sim.now else w.sim.now + 0.01)
            obs["t_idle"] = w.sim.now
            obs["n_frames"] = len(w.bus.log)
            obs["log1"] = list(w.bus.log)
            obs["discarded1"] = list(w.bus.discarded)
            obs["r1"] = res.get("r1")
            obs["deliv_r"] = [d for d in r.deliveries]
            obs["deliv_o"] = [d for d in o.deliveries]
            obs["rx_o"] = [f for _, f in o.received]
            obs["rx_r"] = [f for _, f in r.received]
            obs["rx_r_t"] = [(t_, f) for t_, f in r.received]
            obs["tables"] = (o.peek_sessions(), r.peek_sessions())
            obs["live1"] = w.liveness_problems()
            obs["data"] = bytes(data)
            obs["data_b"] = bytes(data_b)
            obs["stream"] = [bytes(m) for m in stream]
            obs["n_accepted"] = len(accepted)
            obs["rb"] = res.get("rb")
            res["stop_poll"] = True
            # reconnect and follow-up on the same pair
            w.bus.silence = {}
            w.bus.silenced.clear()
            w.bus.drop = set()
            nd_r, nd_o = len(r.deliveries), len(o.deliveries)
            data2 = W.make_payload({"n": size, "cls": "arith", "a": p["a"] + 1, "b": 7})
            try:
                obs["r2"] = o.cas["o"].send_pgn(0, PF, da, 6, list(data2))
            except Exception as e:  # noqa
                obs["r2"] = "EXC:%r" % (e,)
            w.run_for(p["packets"] * 0.06 + 1.0 if p["mode"] == "bam" else 1.0 + p["packets"] * 0.02)
            obs["deliv2_r"] = r.deliveries[nd_r:]
            obs["data2"] = bytes(data2)
            w.run_for(3.5 if fd else 0.5)
            obs["tables2"] = (o.peek_sessions(), r.peek_sessions())
            obs["live2"] = w.liveness_problems()
            obs["swallowed"] = o.swallowed + r.swallowed
        finally:
            w.close()
        return obs

    # ---------------------------------------------------------------- judging
    def _judge(self, p, fault, obs, V):
        SA_O, SA_R = p.get("sas", [0x21, 0x42])
        fd = p["dll"] == "j1939-22"
        kind = fault[0] if fault else "none"
        site = "%s|%s|%s" % ("22" if fd else "21", p["mode"], kind)
        pgn = PF << 8
        data = obs["data"]
        for k2, detail, tt in obs["live1"] + [x for x in obs["live2"] if x not in obs["live1"]]:
            V("liveness-" + k2, "%s %r at t=%.4f" % (k2, detail, tt - 1000), site)
        if obs["r1"] is not True:
            V("first-send-refused", "send_pgn returned %r" % (obs["r1"],), site)
            return False
        got = [d for d in obs["deliv_r"] if d[3] == pgn and d[4] == SA_O]
        other = [d for d in obs["deliv_r"] if not (d[3] == pgn and d[4] == SA_O)]
        completed = False
        retry = p.get("retry")
        if retry:
            # the impatient application's second message (same PGN, same length): each delivery is exactly one of the two payloads
            site += "|retry"
            db = obs["data_b"]
            allowed = [data] + list(obs.get("stream") or [db])
            for d in got:
                if d[5] not in allowed:
                    V("corrupt-mixed", "receiver got %d bytes that are neither the first message nor the application's second one "
                      "(the second send_pgn call was accepted: %r); first difference to the first message at offset %d, to the second at "
                      "offset %d" % (len(d[5]), obs.get("rb"),
                                     next((i for i, (a, b) in enumerate(zip(d[5], data)) if a != b), min(len(d[5]), len(data))),
                                     next((i for i, (a, b) in enumerate(zip(d[5], db)) if a != b), min(len(d[5]), len(db)))), site)
            na, nb_ = sum(1 for d in got if d[5] == data), sum(1 for d in got if d[5] == db)
            cnt = [sum(1 for d in got if d[5] == m) for m in allowed]
            if any(c > 1 for c in cnt):
                V("delivered-twice", "payloads of the %d messages delivered %r times" % (len(allowed), cnt), site)
            completed = na == 1
            if fault is None and (cnt[1:obs.get("n_accepted", 1) + 1] != [1] * obs.get("n_accepted", 1) or obs.get("n_accepted", 1) < 1):
                V("baseline-not-delivered", "fault-free: the application's %d further accepted message(s) (last send_pgn -> %r) were "
                  "delivered %r times" % (obs.get("n_accepted", 0), obs.get("rb"), cnt[1:]), site)
        elif len(got) > 1:
            V("delivered-twice", "payload delivered %d times" % len(got), site)
        elif len(got) == 1:
            if got[0][5] != data:
                how = "truncated" if data.startswith(got[0][5]) or len(got[0][5]) < len(data) else "mixed"
                V("corrupt-" + how, "receiver got %d bytes, %d were sent; first difference at offset %d" %
                  (len(got[0][5]), len(data), next((i for i, (a, b) in enumerate(zip(got[0][5], data)) if a != b),
                                                      min(len(got[0][5]), len(data)))), site)
            else:
                completed = True
        if other:
            V("invented-delivery", "receiver got unrelated delivery pgn=0x%X sa=%d len=%d" %
              (other[0][3], other[0][4], len(other[0][5] or b"")), site)
        if fault is None and not completed:
            V("baseline-not-delivered", "fault-free transfer was not delivered", site)
        # "the standard's timeout for the state they are in": a responder that waits for the NEXT data packet inside a window
        # (it has accepted an in-sequence data packet that did not complete the window it granted) gives up after T1 = 0.75 s
        if p["mode"] == "rts" and fault is not None and not completed and not retry:
            dt_pf, cm_pf = (R.FD_DT_PF, R.FD_CM_PF) if fd else (R.TP_DT_PF, R.TP_CM_PF)
            ev = [(t_, 0, "rx", f_.can_id, bytes(f_.data)) for (t_, f_) in obs.get("rx_r_t", [])]
            ev += [(e.t, 1, "tx", e.can_id, bytes(e.data)) for e in obs["log1"] if e.node == "R"]
            expected = win_end = None
            waiting = None
            for (t_, _, way, cid, dat) in sorted(ev, key=lambda x: (x[0], x[1])):
                ff = R.id_fields(cid)
                if way == "tx" and ff["pf"] == cm_pf and ff["ps"] == SA_O and len(dat) >= 8:
                    ctrl = (dat[0] & 0xF) if fd else dat[0]
                    if ctrl == (R.FD_CTS if fd else R.CTS):
                        n_, nxt_ = (dat[7], R.from_le24(dat[4:7])) if fd else (dat[1], dat[2])
                        waiting = None              # (any CTS, also a hold: the responder is in its after-CTS state, T2)
                        if n_ > 0:
                            expected, win_end = nxt_, nxt_ + n_ - 1
                    elif ctrl == (R.FD_ABORT if fd else R.ABORT):
                        lim = 0.75 + max(p["eps"]) + 2e-5 + p.get("tx_time", 0.0) * 3 + 1e-3
                        if waiting is not None and t_ - waiting > lim:
                            V("gave-up-late", "the responder accepted a data packet inside a window at t=%.4f and sent its time-out "
                              "abort %.3f s later (T1 = 0.75 s for that state)" % (waiting - 1000, t_ - waiting), site + "|resp-T1")
                        break
                    else:
                        waiting = None
                elif way == "rx" and ff["pf"] == dt_pf and ff["sa"] == SA_O and ff["ps"] == SA_R and expected is not None:
                    seq = R.from_le24(dat[1:4]) if fd else dat[0]
                    if seq == expected and expected <= win_end:
                        expected += 1
                        waiting = t_ if expected <= win_end else None
        # tables empty at the bound
        to, tr = obs["tables"]
        if to is not None and any(to):
            V("session-not-released", "originator tables (rcv,snd,mpg)=%r still occupied %.2f s after the last frame activity"
              % (to, obs["t_idle"] - 1000), site + "|orig")
        if tr is not None and any(tr):
            V("session-not-released", "responder tables (rcv,snd,mpg)=%r still occupied after the bound" % (tr,), site + "|resp")
        # abort requirement (connection mode only)
        if p["mode"] == "rts" and fault is not None and not retry:
            self._judge_abort(p, obs, V, site, completed)
        # follow-up
        if obs["r2"] is not True:
            V("followup-refused", "fresh transfer on the same pair after the bound: send_pgn returned %r" % (obs["r2"],), site)
        else:
            g2 = [d for d in obs["deliv2_r"] if d[3] == pgn and d[4] == SA_O]
            if len(g2) != 1 or g2[0][5] != obs["data2"]:
                V("followup-not-delivered", "fresh transfer on the same pair was delivered %d times%s" %
                  (len(g2), "" if not g2 else " (payload differs)"), site)
        t2o, t2r = obs["tables2"]
        if (t2o is not None and any(t2o)) or (t2r is not None and any(t2r)):
            V("session-left-after-followup", "tables after the follow-up: %r %r" % (t2o, t2r), site)
        return completed

    def _judge_abort(self, p, obs, V, site, completed):
        SA_O, SA_R = p.get("sas", [0x21, 0x42])
        fd = p["dll"] == "j1939-22"
        cm_pf = R.FD_CM_PF if fd else R.TP_CM_PF
        dt_pf = R.FD_DT_PF if fd else R.TP_DT_PF
        n = p["packets"]

        def is_cm(f, sa, da):
            return f.ext and ((f.can_id >> 16) & 0xFF) == cm_pf and (f.can_id & 0xFF) == sa and ((f.can_id >> 8) & 0xFF) == da

        def ctrl(f):
            return (f.data[0] & 0x0F) if fd else f.data[0]

        def aborts(frames, sa, da):
            out = []
            for f in frames:
                if is_cm(f, sa, da) and len(f.data) >= (12 if fd else 8) and ctrl(f) == (R.FD_ABORT if fd else R.ABORT):
                    pg = R.pgn_from_le(f.data[9:12] if fd else f.data[5:8])
                    out.append(pg)
            return out

        sent_o = [simbus.mkframe(e.can_id, e.data, e.ext, e.fd) for e in obs["log1"] if e.node == "O"] + \
                 [f for _, nme, f in obs["discarded1"] if nme == "O"]
        sent_r = [simbus.mkframe(e.can_id, e.data, e.ext, e.fd) for e in obs["log1"] if e.node == "R"] + \
                 [f for _, nme, f in obs["discarded1"] if nme == "R"]
        pgn = PF << 8
        # originator: sent fewer than all DT and never saw the final acknowledgement nor an abort
        dts_o = [f for f in sent_o if ((f.can_id >> 16) & 0xFF) == dt_pf]
        ack_c = R.FD_EOMA if fd else R.EOM_ACK
        got_ack = any(is_cm(f, SA_R, SA_O) and ctrl(f) == ack_c for f in obs["rx_o"])
        got_abort = bool(aborts(obs["rx_o"], SA_R, SA_O))
        if not got_ack and not got_abort and len(dts_o) < n:
            ab = aborts(sent_o, SA_O, SA_R)
            if not ab:
                V("no-abort-from-originator", "originator stopped waiting for a CTS (sent %d of %d data packets, no "
                  "acknowledgement, no abort received) without sending a connection abort" % (len(dts_o), n), site)
            elif pgn not in ab:
                V("abort-wrong-pgn", "originator abort carries PGN %r, session PGN 0x%X" % (ab, pgn), site)
        # responder: opened a session (sent a CTS) and did not receive all data packets
        opened = any(is_cm(f, SA_R, SA_O) and ctrl(f) == (R.FD_CTS if fd else R.CTS) for f in sent_r)
        dts_r = [f for f in obs["rx_r"] if ((f.can_id >> 16) & 0xFF) == dt_pf and (f.can_id & 0xFF) == SA_O]
        r_got_abort = bool(aborts(obs["rx_r"], SA_O, SA_R))
        if opened and len(dts_r) < n and not completed:
            ab = aborts(sent_r, SA_R, SA_O)
            if not ab and not (fd and r_got_abort):
                V("no-abort-from-responder", "responder stopped waiting for data packets (%d of %d received) without "
                  "sending a connection abort" % (len(dts_r), n), site)
            elif ab and pgn not in ab:
                V("abort-wrong-pgn", "responder abort carries PGN %r, session PGN 0x%X" % (ab, pgn), site)

    def run_case(self, p):
        viol = []
        only = p.get("only")

        def mkV(fault):
            def V(kind, msg, site=""):
                pp = dict(p)
                pp["only"] = list(fault) if fault else ["none", 0]
                viol.append({"kind": kind, "msg": ("[fault %s] " % (fault,)) + msg,
                             "bucket": "C06|%s|%s" % (kind, site), "params": pp})
            return V

        subruns = 0
        incomplete = 0
        sigs = []
        if only and only[0] != "none":
            faults = [(only[0], only[1])]
            base = None
        else:
            base = self._one(p, None)
            subruns += 1
            self._judge(p, None, base, mkV(None))
            n = base["n_frames"]
            faults = [] if only else [(kind, k) for kind in ("drop", "osilent", "rsilent") for k in range(1, n + 1)]
        for fault in faults:
            obs = self._one(p, fault)
            subruns += 1
            done = self._judge(p, fault, obs, mkV(fault))
            if not done:
                incomplete += 1
        labels = ["%s-%s" % ("22" if p["dll"] == "j1939-22" else "21", p["mode"])]
        if p["win_r"] > 1 and p["mode"] == "rts":
            labels.append("window>1")
        return {"violations": viol, "labels": labels, "nontrivial": incomplete > 0, "subruns": subruns,
                "extra": {"faulty_subruns_incomplete": incomplete, "faulty_subruns": len(faults)},
                "sample": {"shape": {k: p[k] for k in ("dll", "mode", "packets", "win_r")}, "size": size_of(p),
                           "baseline_frames": base["n_frames"] if base else None, "faults_run": len(faults)}}


CHECK = C06()
