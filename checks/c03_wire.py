"""C03 - wire format interoperates with an independent SAE J1939-21/-22 implementation.

The stack talks to vlib/refpeer (written from the standard's frame layouts, imports nothing
from j1939) in both roles, on both data link layers, for RTS/CTS and BAM, while the peer makes
every legal choice (grants, holds, pacing, RTS limit, session number).  A strict reference
decoder judges every frame the stack emits; the stack must decode what the reference emits.
Plus: single-frame identifiers against the reference composition.  DESIGN.md 5/C03.
"""
from hypothesis import strategies as st

from vlib import peerscen as PS
from vlib import world as W
from vlib import simbus
from vlib import refcodec as R


class C03:
    ID = "C03"
    LEVEL = "exploration"
    TECHNIQUE = ("differential property-based testing against an independent reference implementation of the SAE frame "
                 "layouts (reference peer + strict decoder), Hypothesis-generated sessions in virtual time")
    RULE = ("Hypothesis draws a session: layer, role of the stack (originator/responder), RTS/CTS or BAM, size "
            "(9..1785 / 61..20000, all residues), payload class, PGN/priority, the stack's max_cmdt_packets, and the reference "
            "peer's choices (grants per CTS 1..255 clamped to the legal range, 0-3 hold CTS spaced 0.1-0.49 s, reply latency "
            "0.2-150 ms, RTS limit 1..255, DT spacing 0-190 ms, BAM spacing 50-200 / 10-200 ms, FD session number), latencies "
            "0..5 ms; plus enumerated single-frame identifier cases; non-trivial = a transfer with >= 2 CTS windows, or a hold, "
            "or an RTS limit below the packet count, or a BAM of >= 3 packets; distinct = distinct parameter sets")
    ASSUMPTIONS = [
        "the reference peer encodes the SAE layouts listed in DESIGN.md 2.3; on J1939-22 only fields the property names are "
        "compared (TP frame priority, request code and assurance-data type are not judged)",
        "reference peer timing stays inside the standard's envelope (reply < Tr=200 ms, holds < Th=500 ms apart, DT < 200 ms)",
    ]
    shrink_lists = ()

    def strategy(self, tier):
        return PS.peer_strategy()

    def examples(self, tier):
        return 2500 if tier == "quick" else 400000

    def enumerate(self, tier):
        out = []
        for blk in range(8):
            out.append({"k": "single", "prio": blk})
        out.append({"k": "inject"})
        # holds refreshed at the last legal moment (0.499 s) over a link whose latency varies between 1 us and 5 ms: a refresh reaches the originator more than 0.5 s after the hold before it
        for dll in ("j1939-21", "j1939-22"):
            for holds in ([1], [2], [1, 3]):
                for lat_s in ([1e-6, 0.005], [0.005, 1e-6]):
                    for grants in ([1], [2, 255]):
                        out.append(PS.base_case(dll, "orig", "rts", 4, i=len(out), lat={"S": lat_s, "P": [0.0005]},
                                                peer={"holds": holds, "hold_gap": 0.499, "grants": grants}))
        return out

    def exhaustive(self, tier):
        return False

    def simplify(self, p):
        if p.get("k"):
            return
        q = dict(p, peer=dict(p["peer"], holds=[0]))
        yield q
        q = dict(p, peer=dict(p["peer"], reply_lat=[0.001], dt_gap=0.001))
        yield q
        for n in (9, 15, 22, 61, 121):
            if (p["dll"] == "j1939-22") == (n > 60) and n < p["pl"]["n"]:
                yield dict(p, pl=dict(p["pl"], n=n))

    def run_case(self, p):
        viol = []

        def V(kind, msg, site=""):
            viol.append({"kind": kind, "msg": msg, "bucket": "C03|%s|%s" % (kind, site)})

        if p.get("k") == "single":
            return self._single(p, V, viol)
        if p.get("k") == "inject":
            return self._inject(p, V, viol)
        obs = PS.run(p)
        ok = PS.judge_wire(p, obs, V)
        n = obs["packets"]
        labels = ["%s-%s-%s" % ("22" if p["dll"] == "j1939-22" else "21", p["role"], p["mode"])]
        nontrivial = False
        if p["mode"] == "rts":
            ncts = sum(1 for e in obs["peer_events"] if e[1] == "cts") if p["role"] == "resp" else \
                sum(len(s.get("cts_sent", [])) for s in obs["peer_rx"].values())
            holds = p["role"] == "orig" and any(h > 0 for h in p["peer"]["holds"])
            if ncts >= 2:
                labels.append(">=2 CTS")
                nontrivial = True
            if holds:
                labels.append("hold")
                nontrivial = True
            if p["role"] == "resp" and p["peer"]["limit"] < n:
                labels.append("rts-limit<packets")
                nontrivial = True
        else:
            nontrivial = n >= 3
        if p["pl"]["n"] % p["pl"]["seg"] == 0:
            labels.append("len%seg==0")
        return {"violations": viol, "labels": labels, "nontrivial": nontrivial and ok,
                "sample": {k: p[k] for k in ("dll", "role", "mode", "max_cmdt")} | {"size": p["pl"]["n"], "peer": p["peer"]}}

    # ---------------------------------------------------------- single frames
    PFS = [0, 1, 0x7F, 0xC9, 0xE7, 0xE8, 0xEF, 0xF0, 0xF1, 0xFE, 0xFF]
    ADDRS = [0, 1, 0x7F, 0x80, 0xF7, 0xF8, 0xFD, 0xFF]

    def _single(self, p, V, viol):
        """The stack emits single frames: identifier must equal the reference composition."""
        prio = p["prio"]
        w = W.World(default_latency=(0.0005,))
        n = 0
        try:
            s = w.stack("S", dll="j1939-21")
            raw = simbus.RawNode(w.bus, "R")
            cas = {}
            for sa in (0, 0x30, 0xFD):
                cas[sa] = s.add_ca("c%d" % sa, 0x100 + sa, sa)
            for sa, ca in cas.items():
                for dp in (0, 1):
                    for pf in self.PFS:
                        for ps in self.ADDRS:
                            for ln in (0, 3, 8):
                                data = [(pf + i) & 0xFF for i in range(ln)]
                                k = len(w.bus.log)
                                ca.send_pgn(dp, pf, ps, prio, list(data))
                                n += 1
                                new = w.bus.log[k:]
                                exp = R.mk_id(prio, dp, pf, ps, sa)
                                if len(new) != 1 or new[0].can_id != exp or new[0].data != bytes(data) or not new[0].ext:
                                    V("single-frame-id", "send_pgn(dp=%d, pf=0x%02X, ps=0x%02X, prio=%d) from %d put %s on the bus, "
                                      "reference identifier 0x%08X data %s" %
                                      (dp, pf, ps, prio, sa, ["0x%08X:%s" % (e.can_id, e.data.hex()) for e in new], exp, bytes(data).hex()),
                                      "21|single")
                                    return {"violations": viol, "labels": ["single"], "nontrivial": False, "subruns": n}
            w.run_for(0.1)
        finally:
            w.close()
        return {"violations": viol, "labels": ["single"], "nontrivial": True, "subruns": n, "sample": p}

    def _inject(self, p, V, viol):
        """Reference-composed single frames are delivered with the reference's PGN / source address."""
        n = 0
        for dll in ("j1939-21", "j1939-22"):
            w = W.World(default_latency=(0.0002,))
            try:
                s = w.stack("S", dll=dll)
                s.add_ca("c", 0x100, 0x30)
                s.listen_ca("c")
                raw = simbus.RawNode(w.bus, "R")
                exp = []
                for prio in (0, 3, 6, 7):
                    for dp in (0, 1):
                        # (on data page 1 the PDU formats of the protocol's own groups are ordinary parameter groups)
                        for pf in [0, 1, 0x7F, 0xC9, 0xE7, 0xEF, 0xF0, 0xF1, 0xFE, 0xFF] + ([0xEA, 0xEB, 0xEC, 0xEE, 0x25, 0x4D, 0x4E] if dp else []):
                            if dll == "j1939-22" and pf in (0x25, 0x4D, 0x4E) and not dp:
                                continue
                            for ps in (0x30, 0xFF) if pf < 240 else (0, 0x30, 0xCA, 0xFF):
                                for sa in (0, 0x42, 0xFD):
                                    cid = R.mk_id(prio, dp, pf, ps, sa)
                                    data = bytes([(pf ^ ps ^ i) & 0xFF for i in range(8)])
                                    raw.send(cid, data, fd=False)
                                    f = R.id_fields(cid)
                                    exp.append((f["pgn"], sa, data))
                                    n += 1
                w.run_for(0.1)
                got = [(d[3], d[4], d[5]) for d in s.deliveries]
                if got != exp:
                    bad = next((i for i, (a, b) in enumerate(zip(got, exp)) if a != b), min(len(got), len(exp)))
                    V("single-frame-delivery", "%s: frame #%d delivered as %r, reference says %r (%d delivered, %d sent)" %
                      (dll, bad, got[bad] if bad < len(got) else None, exp[bad] if bad < len(exp) else None, len(got), len(exp)),
                      ("22" if dll.endswith("22") else "21") + "|inject")
            finally:
                w.close()
        return {"violations": viol, "labels": ["inject"], "nontrivial": True, "subruns": n, "sample": p}


CHECK = C03()
