"""C13 - a controller application sends application data only from an address it holds.

Generated claim histories (start with a delay, waits around the veto window, contending claims
with lower / higher NAME for the address the CA currently announces or holds) interleaved with
send attempts through every entry point (send_pgn single / BAM / RTS-CTS, any PGN incl. 0xEE00,
send_message, send_request incl. the address-claim PGN, Dm22, Dm1 cycle).
Oracle: reference knowledge of loss events + the CA's public state at the instant of each call /
frame (trace monitor).  DESIGN.md 5/C13.
"""
from hypothesis import strategies as st

from vlib import world as W
from vlib import simbus
from vlib import simkernel as sk
from vlib import refcodec as R
from vlib.refpeer import RefPeer

SA_P = 0x90
NAME = 0x0000123400005678
ENTRIES = ["pgn_single", "pgn_single", "pgn_bam", "pgn_rts", "pgn_claim_pgn", "message", "request", "request_claim", "dm22"]


def _strategy():
    wait = st.builds(lambda d: {"op": "wait", "d": d}, st.sampled_from([0.001, 0.05, 0.1, 0.249, 0.251, 0.3, 0.6, 1.0]))
    start = st.builds(lambda d: {"op": "start", "delay": d}, st.sampled_from([0.0, 0.001, 0.1, 0.5]))
    contend = st.builds(lambda lower: {"op": "contend", "lower": lower}, st.booleans())
    send = st.builds(lambda e, pf, ps, pgn, dest: {"op": "send", "entry": e, "pf": pf, "ps": ps, "pgn": pgn, "dest": dest},
                     st.sampled_from(ENTRIES), st.integers(0, 255), st.integers(0, 255),
                     st.one_of(st.sampled_from([0xEE00, 0xFECA, 0xEA00, 0x1EE00, 0]), st.integers(0, 0x3FFFF)),
                     st.sampled_from([SA_P, 255, 0x33]))
    rnd = st.lists(st.one_of(start, wait, wait, contend, send, send, send), min_size=1, max_size=14)
    # structured histories: become operational, lose the address, then try every entry point
    pattern = st.builds(lambda d, w1, sends, w2, more: [{"op": "start", "delay": d}, {"op": "wait", "d": w1},
                                                         {"op": "contend", "lower": True}] + sends + [{"op": "wait", "d": w2}] + more,
                        st.sampled_from([0.0, 0.001, 0.1]), st.sampled_from([0.3, 0.6, 1.0]), st.lists(send, min_size=1, max_size=4),
                        st.sampled_from([0.001, 0.249, 0.251, 0.6]), st.lists(st.one_of(send, contend, wait), max_size=5))
    # second structured shape: start, then send attempts right around the end of the veto window of the initial claim
    pattern2 = st.builds(lambda d, w1, sends, w2, more: [{"op": "start", "delay": d}, {"op": "wait", "d": w1}] + sends[:2] +
                         [{"op": "wait", "d": w2}] + sends[2:] + more,
                         st.sampled_from([0.0, 0.001]), st.sampled_from([0.2495, 0.2505, 0.251, 0.252, 0.254]),
                         st.lists(send, min_size=2, max_size=4), st.sampled_from([0.001, 0.002, 0.004]), st.lists(st.one_of(send, wait), max_size=3))
    # whole-case shape: an arbitrary-address-capable CA loses its address just before a tick of its claim timer while a frame
    # write takes 5 ms in every context - the re-claim for the next address is still being written (in the receive context)
    # when the background thread runs the timer callback; then every entry point is tried
    shape_tick = st.builds(
        lambda dll, addr, d, w1, x, sends, w2, more: {
            "dll": dll, "aac": True, "bypass": False, "addr": addr, "dm1_tail": False, "tx_pre": 0.0, "tx_time": 0.005, "lat": [0.0005],
            "ops": [{"op": "start", "delay": d}, {"op": "wait", "d": w1}, {"op": "contend", "lower": True, "at_tick": x}] + sends +
                   [{"op": "wait", "d": w2}] + more},
        st.sampled_from(["j1939-21", "j1939-22"]), st.sampled_from([0x20, 0x80, 0xC8, 0xF0]), st.sampled_from([0.0, 0.001, 0.1]),
        st.sampled_from([0.3, 0.6, 1.0]), st.sampled_from([0.0005, 0.002, 0.004]), st.lists(send, min_size=1, max_size=4),
        st.sampled_from([0.001, 0.3, 0.6]), st.lists(st.one_of(send, contend, wait), max_size=4))
    # whole-case shape: a DM1 cycle whose data callback takes 5-20 ms is running; the CA loses its address while that callback
    # is being executed (the contending claim arrives 1-4 ms after the cycle's timer tick); then every entry point is tried
    shape_dm1 = st.builds(
        lambda dll, aac, addr, d, dur, x, sends, w2, more: {
            "dll": dll, "aac": aac, "bypass": False, "addr": addr, "dm1_tail": False, "tx_pre": 0.0, "tx_time": 0.0, "lat": [0.0005],
            "ops": [{"op": "start", "delay": d}, {"op": "wait", "d": 0.6}, {"op": "dm1", "cycle": 0.1, "dur": dur},
                    {"op": "wait", "d": 0.05}, {"op": "contend", "lower": True, "at_tick": -x}] + sends +
                   [{"op": "wait", "d": w2}] + more},
        st.sampled_from(["j1939-21", "j1939-22"]), st.booleans(), st.sampled_from([0x20, 0x80, 0xC8, 0xF0]), st.sampled_from([0.0, 0.001]),
        st.sampled_from([0.005, 0.01, 0.02]), st.sampled_from([0.001, 0.002, 0.004]), st.lists(send, min_size=1, max_size=3),
        st.sampled_from([0.3, 0.6]), st.lists(st.one_of(send, contend, wait), max_size=3))
    # whole-case shape: the contender's claim arrives while the CA's INITIAL claim (an address of the immediate range) is still
    # being written (5 ms); then every entry point is tried
    shape_claimwrite = st.builds(
        lambda dll, aac, addr, d, x, sends, w2, more: {
            "dll": dll, "aac": aac, "bypass": False, "addr": addr, "dm1_tail": False, "tx_pre": 0.0, "tx_time": 0.005, "lat": [0.0005],
            "ops": [{"op": "start", "delay": d}, {"op": "wait", "d": d + x}, {"op": "contend", "lower": True}, {"op": "wait", "d": 0.01}] +
                   sends + [{"op": "wait", "d": w2}] + more},
        st.sampled_from(["j1939-21", "j1939-22"]), st.booleans(), st.sampled_from([0x20, 0x7F, 0xF8, 0xFC]), st.sampled_from([0.0, 0.001, 0.1]),
        st.sampled_from([0.0005, 0.002, 0.004]), st.lists(send, min_size=1, max_size=3),
        st.sampled_from([0.3, 0.6]), st.lists(st.one_of(send, contend, wait), max_size=3))
    general = _general(rnd, pattern, pattern2)
    return st.one_of(general, general, general, general, general, general, shape_tick, shape_dm1, shape_claimwrite)


def _general(rnd, pattern, pattern2):
    return st.fixed_dictionaries({
        "dll": st.sampled_from(["j1939-21", "j1939-21", "j1939-22"]),
        "aac": st.booleans(), "bypass": st.sampled_from([False, False, True]),
        "addr": st.sampled_from([0x20, 0x7F, 0x80, 0xC8, 0xF0, 0xF8, 0xFC, 0xFD, 0xFD]),
        "ops": st.one_of(rnd, rnd, pattern, pattern, pattern2),
        "dm1_tail": st.booleans(),
        "tx_pre": st.sampled_from([0.0, 0.0, 0.002, 0.005]),      # a frame write of the job thread waits that long before the bus
        # a frame write keeps its caller (any context: application, receive path, background thread) that long after the frame is out
        "tx_time": st.sampled_from([0.0, 0.0, 0.0005, 0.005]),
        "lat": st.lists(st.sampled_from(simbus.LATENCY_GRID[1:]), min_size=1, max_size=2),
    })


class C13:
    ID = "C13"
    LEVEL = "exploration"
    TECHNIQUE = ("model-based property testing: generated claim histories with send attempts through every entry point, "
                 "oracle = reference loss events + public CA state at each call, plus a trace monitor over every emitted frame")
    RULE = ("Hypothesis draws a CA (fixed or arbitrary-address-capable, claiming bypassed or not, preferred address in the "
            "immediate or veto range, either data link layer) and a history of 1..14 operations: start(claim_delay), waits "
            "{1,50,100,249,251,300,600,1000 ms}, a contending claim with a lower or higher NAME for the address the CA "
            "currently announces/holds, and send attempts via send_pgn (single frame / BAM / RTS-CTS / PGN 0xEE00), "
            "send_message, send_request (any PGN, the address-claim PGN), Dm22; optionally a DM1 cycle at the end; frame writes "
            "that wait 2/5 ms before the bus (background thread) or keep any caller 0.5/5 ms after it; three whole-case shapes in one "
            "case of nine each: the address is lost 0.5-4 ms before a tick of the claim timer while writes take 5 ms, and the "
            "address is lost while the data callback (5-20 ms) of a running DM1 cycle is being executed, and a contender's claim arrives "
            "while the CA's initial claim is still being written; a loss is defined by bus order (own claim on the bus, then a lower "
            "NAME's claim delivered), not by what the CA reports; "
            "non-trivial = a send attempted while the CA is not operational after having lost its address; "
            "distinct = distinct histories")
    ASSUMPTIONS = [
        "address loss is not injected while a multi-packet transfer of the CA is in flight (the statement is about calls)",
        "'operational' is read from the CA's public state/device_address at the instant of the call; loss events are known to "
        "the harness because it injects the contending claims itself",
        "claim / cannot-claim frames are recognised by PGN 0xEE00 and must carry the CA's NAME; their source address is C04's subject",
    ]
    shrink_lists = ("ops",)
    shrink_min = {"ops": 1}

    def strategy(self, tier):
        return _strategy()

    def examples(self, tier):
        return 2500 if tier == "quick" else 500000

    def enumerate(self, tier):
        return []

    def exhaustive(self, tier):
        return False

    def run_case(self, p):
        viol = []
        fd = p["dll"] == "j1939-22"

        def V(kind, msg, site=""):
            viol.append({"kind": kind, "msg": msg, "bucket": "C13|%s|%s|%s" % (kind, "22" if fd else "21", site)})

        w = W.World(latency={"S": p["lat"], "P": [0.0005], "X": [0.0005]})
        nontrivial = False
        labels = []
        try:
            j = W.load()
            State = j.ControllerApplication.State
            s = w.stack("S", dll=p["dll"], max_cmdt=255, tx_pre=p.get("tx_pre", 0.0), tx_time=p.get("tx_time", 0.0),
                        tx_all_contexts=bool(p.get("tx_time")))
            name_val = NAME | (int(p["aac"]) << 63)
            ca = s.add_ca("ca", name_val, p["addr"], bypass=p["bypass"])
            peer = RefPeer(w.bus, "P", SA_P, fd=fd, grants=[255], reply_lat=[0.001])
            raw = simbus.RawNode(w.bus, "X")
            snap = []          # (k, state, device_address) at the instant each frame of S is put on the bus

            def tap(e):
                if e.node == "S":
                    snap.append((e, ca.state, ca.device_address))
            w.bus.taps.append(tap)
            started = [False]
            lost = [False]
            losses = []          # (instant by which the contending claim had been delivered, address lost)
            lost_fixed = [False]
            announced = [p["addr"] if p["bypass"] else None]

            def last_announced():
                for e in reversed(w.bus.log):
                    if e.node == "S" and ((e.can_id >> 16) & 0xFF) == 0xEE and (e.can_id & 0xFF) < 254:
                        return e.can_id & 0xFF
                return announced[0]

            dm22 = j.Dm22(ca)
            t_busy_until = 0.0
            for oi, op in enumerate(p["ops"]):
                kind = op["op"]
                if kind == "wait":
                    w.run_for(op["d"])
                elif kind == "dm1":
                    def slow_data(dur=op["dur"]):
                        sk.FAKE_TIME.sleep(dur)              # the application's data callback takes time (job thread)
                        return ({"pl": 1}, [{"spn": 100, "fmi": 3, "oc": 1}])
                    dm1_early = j.Dm1(ca)
                    dm1_early.start_send(slow_data, op["cycle"])
                    labels.append("dm1-slow-callback")
                elif kind == "start":
                    if not started[0]:
                        ca.start(op["delay"])
                        started[0] = True
                elif kind == "contend":
                    if w.sim.now < t_busy_until:
                        w.run_until(t_busy_until)
                    cur = ca.device_address if ca.state == State.NORMAL else last_announced()
                    if cur is None or cur >= 254:
                        continue
                    was_normal = ca.state == State.NORMAL
                    was_waiting = ca.state == State.WAIT_VETO
                    # (whatever the CA reports about itself: once its claim for the address is on the bus, a later claim with a
                    # lower NAME takes the address from it)
                    on_bus = [e.can_id & 0xFF for e in w.bus.log if e.node == "S" and ((e.can_id >> 16) & 0xFF) == 0xEE]
                    was_announced = bool(on_bus) and on_bus[-1] == cur
                    cname = (name_val - 0x100) if op["lower"] else (name_val + 0x100)
                    cname &= (1 << 64) - 1
                    if op["lower"] and cname > name_val:
                        continue
                    if op.get("at_tick") is not None:
                        # (schedule alignment only: the contending claim arrives that long before the background thread's next
                        # timed wake-up)
                        wk = [t.wake_at for t in s.threads if not t.done and getattr(t, "wake_at", None) is not None]
                        if wk and min(wk) - max(p["lat"]) - op["at_tick"] > w.sim.now:
                            w.run_until(min(wk) - max(p["lat"]) - op["at_tick"])
                            labels.append("loss-at-timer-tick")
                    raw.send(R.mk_id(6, 0, 0xEE, 255, cur), R.name_bytes(cname))
                    w.run_for(max(p["lat"]) + 0.001)          # until the contending claim has been delivered
                    if op["lower"] and (was_normal or was_waiting or was_announced):
                        lost[0] = True
                        losses.append((w.sim.now, cur))
                        if not p["aac"]:
                            lost_fixed[0] = True
                        if ca.state == State.NORMAL and ca.device_address == cur:
                            V("still-operational-after-loss", "a contending claim with a lower NAME for address %d was delivered; the "
                              "CA still reports state NORMAL on that address" % cur, "aac" if p["aac"] else "fixed")
                    labels.append("contend-lower" if op["lower"] else "contend-higher")
                elif kind == "send":
                    st0, adr0 = ca.state, ca.device_address
                    operational = st0 == State.NORMAL
                    if lost_fixed[0] and operational:
                        V("operational-after-cannot-claim", "a fixed-address CA that lost its address reports NORMAL again")
                    k0 = len(w.bus.log)
                    exc = None
                    ret = None
                    entry = op["entry"]
                    try:
                        if entry == "pgn_single":
                            ret = ca.send_pgn(0, op["pf"], op["ps"], 6, [1, 2, 3])
                        elif entry == "pgn_bam":
                            ret = ca.send_pgn(0, 0xFE, 0xCA, 6, list(range(70 if fd else 20)))
                            t_busy_until = w.sim.now + 0.4
                        elif entry == "pgn_rts":
                            ret = ca.send_pgn(0, 0xD0, SA_P, 6, list(range(70 if fd else 20)))
                            t_busy_until = w.sim.now + 0.4
                        elif entry == "pgn_claim_pgn":
                            ret = ca.send_pgn(0, 0xEE, 255, 6, R.name_bytes(name_val))
                        elif entry == "message":
                            ret = ca.send_message(6, op["pgn"] & 0x3FFFF, [9, 8, 7])
                        elif entry == "request":
                            ret = ca.send_request(0, op["pgn"], op["dest"])
                        elif entry == "request_claim":
                            ret = ca.send_request(0, 0xEE00, op["dest"])
                        elif entry == "dm22":
                            ret = dm22.request_clear_act_dtc(op["dest"], op["pgn"] & 0x7FFFF, 5)
                    except Exception as e:   # noqa - judged below
                        exc = e
                    new = [e for e in w.bus.log[k0:] if e.node == "S"]
                    if p.get("tx_time"):
                        # the call took time: the background thread may have written an address claim of its own meanwhile
                        new = [e for e in new if not (e.ext and ((e.can_id >> 16) & 0xFF) == 0xEE and ((e.can_id >> 8) & 0xFF) == 255
                                                      and list(e.data) == R.name_bytes(name_val))]
                    is_claim_req = entry == "request_claim" or (entry == "request" and op["pgn"] == 0xEE00)
                    if not operational:
                        if lost[0]:
                            nontrivial = True
                        if is_claim_req:
                            if exc is not None:
                                V("claim-request-refused", "send_request for the address-claim PGN raised %r in state %r; it is allowed "
                                  "from the null address" % (exc, st0), entry)
                            for e in new:
                                f = R.id_fields(e.can_id)
                                ok = f["sa"] == 254 and f["pf"] == 0xEA and list(e.data[:3]) == [0x00, 0xEE, 0x00]
                                if fd:
                                    ok = f["sa"] == 254
                                if not ok:
                                    V("frame-while-not-operational", "request for address claim in state %r emitted id 0x%08X data %s "
                                      "(expected source 254)" % (st0, e.can_id, e.data.hex()), entry)
                        else:
                            if exc is None:
                                V("no-raise-while-not-operational", "%s did not raise in state %r (returned %r)" % (entry, st0, ret), entry)
                            if new:
                                V("frame-while-not-operational", "%s in state %r put id 0x%08X on the bus" % (entry, st0, new[0].can_id), entry)
                    else:
                        if exc is not None and "address claim" in str(exc):
                            V("raised-while-operational", "%s raised %r although the CA is NORMAL on address %d" % (entry, exc, adr0), entry)
                        for e in new:
                            if (e.can_id & 0xFF) != adr0:
                                V("wrong-source-address", "%s emitted id 0x%08X while the CA holds address %d" % (entry, e.can_id, adr0), entry)
                                break
                    labels.append("send-" + ("op" if operational else "nonop"))
            if p["dm1_tail"]:
                if w.sim.now < t_busy_until:
                    w.run_until(t_busy_until)
                dm1 = j.Dm1(ca)
                dm1.start_send(lambda: ({"pl": 1}, [{"spn": 100, "fmi": 3, "oc": 1}]), 0.1)
                w.run_for(0.35)
                labels.append("dm1")
            w.run_for(0.5)
            # ---- trace monitor over every frame of the stack
            nb = R.name_bytes(name_val)
            first_claim = [None]
            for (e, st_, adr) in snap:
                f = R.id_fields(e.can_id)
                sa = f["sa"]
                if e.ext and f["pf"] == 0xEE and f["ps"] == 255 and list(e.data) == nb:
                    continue                      # address claimed / cannot claim
                if e.ext and sa == 254 and f["pf"] == 0xEA and list(e.data[:3]) == [0x00, 0xEE, 0x00]:
                    continue                      # request for address claim from the null address
                if fd and e.ext and sa == 254 and f["pf"] == 0x25:
                    grp = R.mpg_unpack(e.data)
                    if len(grp) == 1 and (grp[0][2] >> 8) == 0xEA and list(grp[0][3][:3]) == [0x00, 0xEE, 0x00]:
                        continue
                # the veto window of the INITIAL claim: a CA that claims an address of the range 128..247 through the real
                # procedure completes claiming 250 ms after that claim was on the bus, not before (re-claims after a loss are
                # not judged here: the library has no way to restart its timer for them - DESIGN.md 6, remarks)
                if first_claim[0] is None:
                    for (e2, _, _) in snap:
                        f2 = R.id_fields(e2.can_id)
                        if e2.ext and f2["pf"] == 0xEE and f2["ps"] == 255 and list(e2.data) == nb:
                            first_claim[0] = (e2.t, f2["sa"])
                            break
                if (not p["bypass"]) and first_claim[0] is not None and 128 <= first_claim[0][1] <= 247 and sa == first_claim[0][1] \
                        and e.t < first_claim[0][0] + 0.25 - 1e-9:
                    V("frame-inside-veto-window", "application frame id 0x%08X was sent %.4f s after the CA's initial claim for address %d "
                      "appeared on the bus (the veto window is 250 ms)" % (e.can_id, e.t - first_claim[0][0], sa))
                    break
                # reference, independent of what the CA reports: an address lost to a lower NAME is not used again unless the CA
                # has claimed it again on the bus since (frames already waiting in the transmit path excepted)
                hit = [tl for (tl, a) in losses if a == sa and e.t > tl + (max(p["tx_pre"]) if isinstance(p.get("tx_pre"), list) else p.get("tx_pre", 0.0)) + 1e-6
                       and not any(e2.ext and R.id_fields(e2.can_id)["pf"] == 0xEE and (e2.can_id & 0xFF) == sa and tl < e2.t < e.t and list(e2.data) == nb
                                   for (e2, _, _) in snap)]
                if hit:
                    V("frame-from-lost-address", "application frame id 0x%08X was sent from address %d at t=%.4f; a claim with a lower NAME for "
                      "that address had been delivered to the CA by t=%.4f (after the CA's own claim was on the bus) and the CA has not "
                      "claimed it again since" % (e.can_id, sa, e.t - 1000, hit[0] - 1000))
                    break
                if st_ != State.NORMAL or sa != adr:
                    V("trace-frame-without-address", "frame id 0x%08X (data %s) was put on the bus at t=%.4f while the CA was in state "
                      "%r holding address %r" % (e.can_id, e.data.hex()[:24], e.t - 1000, st_, adr))
                    break
                # independent of what the CA reports: the address it holds is the one it last claimed on the bus
                claimed = p["addr"] if p["bypass"] else None
                for (e2, _, _) in snap:
                    if e2.k >= e.k:
                        break
                    f2 = R.id_fields(e2.can_id)
                    if e2.ext and f2["pf"] == 0xEE and f2["ps"] == 255 and list(e2.data) == nb and f2["sa"] < 254:
                        claimed = f2["sa"]
                if claimed is not None and sa != claimed:
                    V("trace-frame-from-unclaimed-address", "frame id 0x%08X was sent from address %d at t=%.4f; the last address this CA "
                      "claimed on the bus is %d" % (e.can_id, sa, e.t - 1000, claimed))
                    break
            # a service built on the send calls (the DM1 cycle) has no caller to raise to: whatever it does while the CA has no
            # address, it must not take the ECU's background thread - and with it the CA's own claim timer - down
            for k2, detail, tt in w.liveness_problems():
                V("liveness-" + k2, "%s %r at t=%.4f" % (k2, detail, tt - 1000), "dm1" if p["dm1_tail"] else "")
            if not s.alive() and not w.liveness_problems():
                V("liveness-thread-dead", "job thread dead: %r" % (s.dead_threads(),))
        finally:
            w.close()
        return {"violations": viol, "labels": sorted(set(labels)) + ["aac" if p["aac"] else "fixed", "bypass" if p["bypass"] else "claim"],
                "nontrivial": nontrivial,
                "sample": {k: p[k] for k in ("dll", "aac", "bypass", "addr")} | {"ops": p["ops"][:8]}}


CHECK = C13()
