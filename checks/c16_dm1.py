"""C16 - diagnostic trouble codes and lamp states arrive exactly as sent (DM1, DTC, DM22).

Codec level (enumerated against the J1939-73 layout in vlib/refcodec): every SPN 0..2^19-1 with
boundary FMI/OC values and every FMI x OC for boundary SPNs through DTC(spn,fmi,oc) <-> DTC(dtc=);
all 5^4 lamp combinations through DtcLamp.get_data / get_status; DM22 request bytes.
End to end (generated): a DM1 sender and 1-2 DM1 subscribers on separate stacks, either layer,
1..400 trouble codes per cycle (single frame, BAM, FD multi-PG, FD BAM), several cycles, then
stop_send and three cycles of silence.  DESIGN.md 5/C16.
"""
import itertools
from hypothesis import strategies as st

from vlib import world as W
from vlib import simbus
from vlib import simkernel as sk
from vlib import refcodec as R

SA_S = 0x28
FMI_B = [0, 1, 15, 16, 31]
OC_B = [0, 1, 64, 126, 127]
SPN_B = [0, 1, 0xFF, 0x100, 0xFFFF, 0x10000, 0x1FFFF, 0x20000, 0x3FFFF, 0x40000, 0x7FFFE, 0x7FFFF]
LAMPS = ["pl", "awl", "rsl", "mil"]


def dtcs_for(seed, n):
    out = []
    for i in range(n):
        spn = (seed * 7919 + i * 104729 + (i * i) * 31) % (1 << 19)
        if i % 11 == 0:
            spn = SPN_B[(seed + i) % len(SPN_B)]
        d = {"spn": spn, "fmi": (seed + 3 * i) % 32}
        if (seed + i) % 5 != 0:
            d["oc"] = (seed * 3 + 7 * i) % 128
        out.append(d)
    return out


def _strategy():
    lamp = st.dictionaries(st.sampled_from(LAMPS), st.integers(0, 4), max_size=4)
    cyc = st.builds(lambda l, n, seed: {"lamps": l, "n": n, "seed": seed}, lamp,
                    st.one_of(st.sampled_from([1, 1, 2, 3, 14, 15, 16, 100, 400]), st.integers(1, 60)), st.integers(0, 10 ** 6))
    return st.fixed_dictionaries({
        "k": st.just("e2e"),
        "dll": st.sampled_from(["j1939-21", "j1939-22"]),
        "cycles": st.lists(cyc, min_size=1, max_size=4),
        "cycle_mode": st.sampled_from(["long", "long", "short"]),
        "nsub": st.integers(1, 2),
        "stop_mode": st.sampled_from(["app", "app", "in_callback", "app_during_callback"]),
        "cb_dur": st.sampled_from([0.0, 0.0, 0.005, 0.03]),        # time the application's data callback takes
        # the sending Dm1 object also subscribes (one object for both directions) while a foreign node sends DM1 too, and the
        # application hands out the SAME lamp dict object every cycle (built once from the first cycle's lamps)
        "also_rx": st.sampled_from([False, False, True]),
        "persistent": st.booleans(),
        # the application keeps ONE lamp dict and ONE trouble-code list and updates them in place before every cycle
        # ("deep": the trouble-code DICTS are the application's own too - a running fault's occurrence count etc. is updated inside
        # them, with lamps and number of codes unchanged from cycle to cycle)
        "in_place": st.sampled_from([False, False, True, "deep"]),
        # the first receiver's Dm1 object has one more subscriber, registered first, that unsubscribes itself at its first call
        "oneshot_first": st.sampled_from([False, False, True]),
        # the first receiver's Dm1 object has one more subscriber, registered first, that post-processes what it is handed
        # (adds a text to every code dict, maps the 'not available' count to None, switches a lamp off in its copy)
        "sub_mutates": st.sampled_from([False, False, True]),
        # the first receiver's CA carries a SECOND Dm1 object, created first, whose only subscriber is a one-shot consumer
        # (it unsubscribes itself inside its first call)
        "other_dm1_oneshot": st.sampled_from([False, False, True]),
        # with also_rx: the sending Dm1 object has TWO own subscribers, the first one takes that long - and the foreign node's DM1
        # arrives half that time before the object's own next send cycle
        "own_slow": st.sampled_from([0.0, 0.0, 0.004, 0.03]),
        "sa": st.sampled_from([0x28, 0x28, 0x00, 0x01, 0xCA, 0xFD]),
        "lat": st.lists(st.sampled_from([1e-6, 0.0002, 0.001, 0.005]), min_size=1, max_size=2),
        "eps": st.lists(st.sampled_from([0.0, 1e-5, 1e-3]), min_size=1, max_size=2),
    })


class C16:
    ID = "C16"
    LEVEL = "exploration"
    TECHNIQUE = ("exhaustive enumeration of the DTC / lamp / DM22 codecs against the J1939-73 bit layout, plus property-based "
                 "end-to-end DM1 histories (start_send, cycles, stop_send) in virtual time")
    RULE = ("codec cases are blocks: every SPN 0..2^19-1 x 4 (FMI,OC) boundary pairs, every FMI x OC for 12 boundary SPNs, all "
            "625 lamp combinations, DM22 request bytes for boundary SPNs x all 32 FMI x both request kinds; end-to-end cases are "
            "drawn by Hypothesis: layer, 1-4 cycles each with a lamp dict (any subset of pl/awl/rsl/mil, states 0..4) and 1..400 "
            "trouble codes (classes 1 / 2-3 / 14-16 / 100 / 400), cycle time above ('long', every cycle must arrive) or below "
            "('short', every received value must have been supplied, no more often than supplied) the transfer duration, 1-2 subscribers, in one case of three the sending Dm1 object also subscribes while a foreign node sends DM1 in between and the application hands out one persistent lamp dict (optionally with two own subscribers of which the first takes 4 / 30 ms while the foreign DM1 arrives just before the object's own next cycle), in one case of three the first receiver has a further subscriber that post-processes the dicts it is handed, in one of three its CA carries a second Dm1 object whose only subscriber is a one-shot consumer, in one case of four the application keeps one lamp dict and one code list and refills them before every cycle and in one of four it also keeps the code dicts and only updates their fields, a data callback that takes 0 / 5 / 30 ms, then "
            "stop_send - from the application between cycles, from inside the data callback, or from the application while the "
            "data callback is running - and three further cycle times of silence; non-trivial (e2e) = at least one multi-frame DM1 was received; "
            "every codec block is non-trivial; distinct = distinct blocks / parameter sets")
    ASSUMPTIONS = [
        "lamp states are members of DtcLamp (0..4); SPN < 2^19, FMI < 32, OC < 128 (the documented field widths)",
        "a missing 'oc' means 0 and a missing lamp means OFF (as the sender documents)",
    ]
    shrink_lists = ("cycles",)
    shrink_min = {"cycles": 1}

    def strategy(self, tier):
        return _strategy()

    def examples(self, tier):
        return 400 if tier == "quick" else 150000

    def enumerate(self, tier):
        out = []
        for s in range(0, 1 << 19, 1 << 14):
            out.append({"k": "dtc_spn", "start": s, "count": 1 << 14})
        out.append({"k": "dtc_boundary"})
        out.append({"k": "lamps"})
        out.append({"k": "dm22"})
        return out

    def exhaustive(self, tier):
        return False

    def coverage_note(self, tier):
        return "the SPN space (2^19) and the lamp space (5^4) are enumerated completely; end-to-end histories are sampled"

    # ------------------------------------------------------------------ codec
    def _codec(self, p, V):
        j = W.load()
        n = 0
        k = p["k"]
        if k in ("dtc_spn", "dtc_boundary"):
            if k == "dtc_spn":
                combos = ((spn, f, o) for spn in range(p["start"], p["start"] + p["count"])
                          for (f, o) in ((0, 0), (31, 127), (21, 85), (10, 42)))
            else:
                combos = ((spn, f, o) for spn in SPN_B for f in range(32) for o in range(128))
            for spn, fmi, oc in combos:
                n += 1
                d = j.DTC(spn=spn, fmi=fmi, oc=oc)
                ref = R.dtc_pack(spn, fmi, oc)
                if d.dtc != ref:
                    V("dtc-pack", "DTC(spn=%d, fmi=%d, oc=%d).dtc == 0x%08X, J1939-73 layout gives 0x%08X" % (spn, fmi, oc, d.dtc, ref))
                    break
                b = j.DTC(dtc=ref)
                if (b.spn, b.fmi, b.oc) != (spn, fmi, oc) or b.dtc != ref:
                    V("dtc-unpack", "DTC(dtc=0x%08X) -> spn=%r fmi=%r oc=%r, expected %d/%d/%d" % (ref, b.spn, b.fmi, b.oc, spn, fmi, oc))
                    break
                if (d.spn, d.fmi, d.oc) != (spn, fmi, oc):
                    V("dtc-fields", "DTC(spn,fmi,oc) properties %r" % ((d.spn, d.fmi, d.oc),))
                    break
        elif k == "lamps":
            for combo in itertools.product(range(5), repeat=4):
                n += 1
                states = dict(zip(LAMPS, combo))
                data = j.DtcLamp().get_data(dict(states))
                ref = R.lamps_pack(states)
                if list(data) != ref:
                    V("lamp-pack", "DtcLamp.get_data(%r) == %r, J1939-73 gives %r" % (states, list(data), ref))
                    break
                back = {}
                for name, sh in R.LAMP_SHIFT.items():
                    back[name] = j.DtcLamp().get_status((ref[0] >> sh) & 3, (ref[1] >> sh) & 3)
                if back != states:
                    V("lamp-unpack", "get_status of %r gives %r, expected %r" % (ref, back, states))
                    break
            # partial dictionaries: missing lamps are OFF
            for miss in LAMPS:
                states = {l: 1 for l in LAMPS if l != miss}
                data = j.DtcLamp().get_data(dict(states))
                if list(data) != R.lamps_pack(states):
                    V("lamp-missing", "missing lamp %s: %r vs %r" % (miss, list(data), R.lamps_pack(states)))
        elif k == "dm22":
            w = W.World()
            try:
                s = w.stack("S", dll="j1939-21")
                ca = s.add_ca("c", 0x10, SA_S)
                dm22 = j.Dm22(ca)
                for spn in SPN_B:
                    for fmi in range(32):
                        for (fn, ctrl) in ((dm22.request_clear_act_dtc, 17), (dm22.request_clear_pa_dtc, 1)):
                            n += 1
                            k0 = len(w.bus.log)
                            fn(0x44, spn, fmi)
                            new = w.bus.log[k0:]
                            ref = bytes(R.dm22_request(ctrl, spn, fmi))
                            exp_id = R.mk_id(6, 0, 0xC3, 0x44, SA_S)
                            if len(new) != 1 or new[0].data != ref or new[0].can_id != exp_id:
                                V("dm22-request", "DM22 %s(spn=%d, fmi=%d): frame %s, J1939-73 layout: id 0x%08X data %s" %
                                  ("act" if ctrl == 17 else "pa", spn, fmi, ["0x%08X:%s" % (e.can_id, e.data.hex()) for e in new], exp_id, ref.hex()))
                                return n
            finally:
                w.close()
        return n

    # --------------------------------------------------------------- end to end
    def _e2e(self, p, V):
        fd = p["dll"] == "j1939-22"
        SA_S = p.get("sa", 0x28)
        j = W.load()
        lat = {"R0": p["lat"], "R1": p["lat"][::-1]}
        w = W.World(latency=lat, wake_eps=p["eps"], dispatch=[0.0, 1e-5])
        multi_rx = False
        try:
            s = w.stack("S", dll=p["dll"])
            ca = s.add_ca("s", 0x10, SA_S)
            dm1 = j.Dm1(ca)
            got = []
            for i in range(p["nsub"]):
                r = w.stack("R%d" % i, dll=p["dll"])
                rca = r.add_ca("r", 0x20 + i, 0x50 + i)
                if i == 0 and p.get("other_dm1_oneshot"):
                    other = j.Dm1(rca)

                    def consume_once(sa, lamps, dtcs, ts, other=other):
                        other.unsubscribe(consume_once)
                    other.subscribe(consume_once)
                rd = j.Dm1(rca)
                got.append([])
                if i == 0 and p.get("oneshot_first"):
                    def once(sa, lamps, dtcs, ts, rd=rd):
                        rd.unsubscribe(once)
                    rd.subscribe(once)
                if i == 0 and p.get("sub_mutates"):
                    def post(sa, lamps, dtcs, ts):
                        lamps["pl"] = 0
                        for d in dtcs:
                            d["text"] = "SPN %d FMI %d" % (d["spn"], d["fmi"])
                            d["oc"] = None if d["oc"] == 127 else d["oc"] + 1000
                    rd.subscribe(post)
                rd.subscribe((lambda i=i: (lambda sa, lamps, dtcs, ts: got[i].append((w.sim.now, sa, dict(lamps), [dict(d) for d in dtcs]))))())
            supplied = []
            idx = [0]
            cb_dur = p.get("cb_dur", 0.0)
            own_lamps, own_dtcs = {}, []
            own_rx = []
            keep = dict(p["cycles"][0]["lamps"])          # the application's own, persistent lamp dict
            keep0 = dict(keep)
            own_rx2 = []
            if p.get("also_rx"):
                if p.get("own_slow"):
                    dm1.subscribe(lambda sa, lamps, dtcs, ts: sk.FAKE_TIME.sleep(p["own_slow"]))
                dm1.subscribe(lambda sa, lamps, dtcs, ts: (own_rx.append((w.sim.now, sa, dict(lamps))),
                                                           own_rx2.append((w.sim.now, sa, dict(lamps), [dict(d) for d in dtcs]))))
                foreign = simbus.RawNode(w.bus, "F")
                f_lamps = {"pl": 1, "awl": 2, "rsl": 3, "mil": 1}
                f_data = bytes(R.dm1_payload(f_lamps, [{"spn": 1208, "fmi": 3, "oc": 5}]))

            stopped_in_cb = []

            def cb():
                c = p["cycles"][idx[0] % len(p["cycles"])]
                idx[0] += 1
                lamps = keep if (p.get("also_rx") and p.get("persistent")) else dict(c["lamps"])
                dtcs = dtcs_for(c["seed"], c["n"])
                if p.get("in_place") == "deep" and not (p.get("also_rx") and p.get("persistent")):
                    c0 = p["cycles"][0]
                    dtcs = dtcs_for(c["seed"], c0["n"])
                    if not own_dtcs:
                        own_lamps.update(c0["lamps"])
                        own_dtcs[:] = [dict(d) for d in dtcs]
                    else:
                        for mine, d in zip(own_dtcs, dtcs):
                            mine.clear()
                            mine.update(d)
                    lamps, dtcs = own_lamps, own_dtcs
                elif p.get("in_place") and not (p.get("also_rx") and p.get("persistent")):
                    own_lamps.clear()
                    own_lamps.update(c["lamps"])
                    own_dtcs[:] = dtcs
                    lamps, dtcs = own_lamps, own_dtcs
                supplied.append((w.sim.now, dict(lamps), [dict(d) for d in dtcs]))
                if p.get("stop_mode") == "in_callback" and idx[0] == stop_at and not stopped_in_cb:
                    dm1.stop_send(cb)              # stop from inside the data callback: this cycle is the last one
                    stopped_in_cb.append(w.sim.now)
                if p.get("stop_mode") == "app_during_callback" and idx[0] == stop_at and not stopped_in_cb and cb_dur:
                    # the application thread stops the cycle while this callback is still running
                    def do_stop():
                        dm1.stop_send(cb)
                        stopped_in_cb.append(w.sim.now)
                    w.sim.schedule(w.sim.now + cb_dur / 2, do_stop)
                if cb_dur:
                    sk.FAKE_TIME.sleep(cb_dur)
                return lamps, dtcs

            # duration of the longest message
            def dur(n):
                size = 2 + 4 * n
                if fd:
                    return 0.0 if size <= 60 else (-(-size // 60) + 2) * 0.011
                return 0.0 if size <= 8 else (-(-size // 7) + 1) * 0.051
            dmax = max(dur(c["n"]) for c in p["cycles"])
            if p["cycle_mode"] == "long":
                cycle = max(0.1, dmax + 0.2)
            else:
                cycle = max(0.05, dmax * 0.4)
            ncyc = len(p["cycles"]) if p["cycle_mode"] == "long" else len(p["cycles"]) + 2
            stop_at = ncyc
            dm1.start_send(cb, cycle)
            if p.get("also_rx"):
                for kf in range(ncyc):
                    t_f = cycle * (kf + 0.5) if not p.get("own_slow") else cycle * (kf + 1) - p["own_slow"] / 2
                    w.at(w.sim.now - w.t0 + t_f, lambda: foreign.send(R.mk_id(6, 0, 0xFE, 0xCA, 0x77), f_data))
            w.run_for(cycle * ncyc + cycle * 0.5)
            if stopped_in_cb:
                t_stop = stopped_in_cb[0]
                n_supplied_at_stop = stop_at
                w.run_for(cycle)                  # give a surviving timer the chance to show itself
            else:
                dm1.stop_send(cb)
                t_stop = w.sim.now
                n_supplied_at_stop = len(supplied)
            w.run_for(dmax + 0.3)            # a transfer begun before stop_send may finish
            t_quiet_from = w.sim.now
            w.run_for(3 * cycle + 0.1)
            log = list(w.bus.log)
            live = w.liveness_problems()
        finally:
            w.close()
        site = "%s|%s" % ("22" if fd else "21", p["cycle_mode"])
        for k2, detail, tt in live:
            V("liveness-" + k2, "%s %r" % (k2, detail), site)

        def norm(lamps, dtcs):
            l = {k: lamps.get(k, 0) if lamps.get(k) is not None else 0 for k in LAMPS}
            d = [(x["spn"], x["fmi"], x.get("oc", 0) or 0) for x in dtcs]
            return l, d
        # "each cycle until stop_send": the data callback is asked once per cycle - also for a cycle that finds the previous
        # transfer still running - so exactly ncyc times in the ncyc + 1/2 cycles before stop_send
        if n_supplied_at_stop < ncyc and not live:
            V("cycle-skipped", "the DM1 data callback was asked %d time(s) in %d cycles of %.3f s before stop_send (cyclic sending "
              "ended by itself)" % (n_supplied_at_stop, ncyc, cycle), site)
        if p.get("also_rx") and p.get("persistent"):
            # (the library may fill in defaults for lamps the application left out - that does not change what is supplied)
            if norm(keep, [])[0] != norm(keep0, [])[0]:
                V("lamp-dict-overwritten", "the lamp dict object the application's callback hands out every cycle was changed by the "
                  "library from %r to %r (a DM1 received from another node was written into it)" % (keep0, keep), site)
            # what the application supplies is its own, unchanged lamp state
            supplied = [(t_, dict(keep0), d_) for (t_, l_, d_) in supplied]
        if p.get("also_rx") and not any(sa == 0x77 for (_, sa, _) in own_rx) and not live:
            V("own-subscriber-missed-foreign-dm1", "the sending Dm1 object's own subscriber got %d DM1 from the foreign node" %
              len(own_rx), site)
        if p.get("also_rx"):
            # what the sending object's own subscribers are handed for the foreign node's DM1 is the foreign node's data
            want = norm(f_lamps, [{"spn": 1208, "fmi": 3, "oc": 5}])
            for (t_, sa, l_, d_) in own_rx2:
                if sa == 0x77 and norm(l_, d_) != want:
                    V("own-subscriber-wrong-foreign-dm1", "a subscriber of the sending Dm1 object was handed, for the DM1 of node 0x77 at "
                      "t=%.4f, lamps %r and codes %r; node 0x77 sent %r" % (t_ - 1000, l_, d_[:3], want), site)
                    break
        sup = [norm(l, d) for (_, l, d) in supplied[:n_supplied_at_stop]]
        if len(supplied) > n_supplied_at_stop:
            V("callback-after-stop", "the DM1 data callback was invoked %d time(s) after stop_send returned" %
              (len(supplied) - n_supplied_at_stop), site)
        for i, g in enumerate(got):
            if p.get("also_rx"):
                g = [x for x in g if x[1] != 0x77]          # the foreign node's DM1 is not the sender's
            rec = [norm(l, [dict(spn=x["spn"], fmi=x["fmi"], oc=x["oc"]) for x in d]) for (_, sa, l, d) in g]
            if any(sa != SA_S for (_, sa, _, _) in g):
                V("dm1-wrong-source", "subscriber %d got DM1 from %r" % (i, [sa for (_, sa, _, _) in g][:3]), site)
            if any(len(d) > 1 for (_, d) in rec):
                multi_rx = True
            if p["cycle_mode"] == "long":
                # (a cycle whose data callback was running when stop_send was called may or may not still go out)
                if rec != sup and not (stopped_in_cb and rec == sup[:-1]):
                    bad = next((k for k, (a, b) in enumerate(zip(rec, sup)) if a != b), min(len(rec), len(sup)))
                    what = "count"
                    detail = "%d received, %d supplied" % (len(rec), len(sup))
                    if bad < len(rec) and bad < len(sup):
                        if rec[bad][0] != sup[bad][0]:
                            what, detail = "lamps", "received %r, supplied %r" % (rec[bad][0], sup[bad][0])
                        else:
                            kk = next((q for q, (a, b) in enumerate(zip(rec[bad][1], sup[bad][1])) if a != b), None)
                            what = "dtc" if kk is not None else "dtc-count"
                            detail = ("DTC #%d received (spn,fmi,oc)=%r supplied %r" % (kk, rec[bad][1][kk], sup[bad][1][kk])) if kk is not None \
                                else "%d DTCs received, %d supplied" % (len(rec[bad][1]), len(sup[bad][1]))
                    V("dm1-mismatch-" + what, "subscriber %d, cycle %d: %s" % (i, bad, detail), site)
            else:
                # weaker oracle: every received value was supplied for some cycle, no more often than supplied
                # (a single-frame DM1 may legitimately overtake a multi-packet one still in transit, so no order is required)
                pool = list(sup)
                for r in rec:
                    if r in pool:
                        pool.remove(r)
                    else:
                        V("dm1-not-supplied", "subscriber %d received a DM1 value that was never supplied (or more often than "
                          "supplied): lamps %r, %d DTCs" % (i, r[0], len(r[1])), site)
                        break
        # no DM1 is STARTED after stop_send has returned from a call made by another thread (a transfer that was already
        # running may finish): first frames of a DM1 are the single frame, the BAM announcement, a multi-PG frame with it
        if p.get("stop_mode") == "app_during_callback" and stopped_in_cb:
            for e in log:
                if e.node != "S" or e.t <= t_stop + 1e-9:
                    continue
                f = R.id_fields(e.can_id)
                first = (f["pf"] == 0xFE and f["ps"] == 0xCA)
                if f["pf"] in (0xEC, 0x4D) and f["ps"] == 255 and len(e.data) >= 8:
                    ctrl = e.data[0] if f["pf"] == 0xEC else (e.data[0] & 0xF)
                    first = ctrl in (32, 4) and R.pgn_from_le(e.data[-3:]) == 0xFECA
                if f["pf"] == 0x25:
                    try:
                        first = any(g[2] == 0xFECA for g in R.mpg_unpack(e.data))
                    except ValueError:
                        first = False
                if first:
                    V("dm1-started-after-stop", "a DM1 was started %.4f s after stop_send() had returned to the application thread "
                      "(the data callback was still running when it was called)" % (e.t - t_stop), site)
                    break
        # silence after stop_send
        for e in log:
            if e.t <= t_quiet_from or e.node != "S":
                continue
            f = R.id_fields(e.can_id)
            is_dm1 = (f["pf"] == 0xFE and f["ps"] == 0xCA)
            if f["pf"] in (0xEC, 0x4D) and f["ps"] == 255:
                is_dm1 = R.pgn_from_le(e.data[-3:]) == 0xFECA
            if f["pf"] == 0x25:
                try:
                    is_dm1 = any(g[2] == 0xFECA for g in R.mpg_unpack(e.data))
                except ValueError:
                    is_dm1 = False
            if is_dm1:
                V("dm1-after-stop", "DM1 still sent %.3f s after stop_send returned (id 0x%08X)" % (e.t - t_stop, e.can_id), site)
                break
        return multi_rx

    def run_case(self, p):
        viol = []

        def V(kind, msg, site=""):
            viol.append({"kind": kind, "msg": msg, "bucket": "C16|%s|%s" % (kind, site)})

        if p["k"] == "e2e":
            multi = self._e2e(p, V)
            ns = [c["n"] for c in p["cycles"]]
            labels = ["e2e-" + ("22" if p["dll"].endswith("22") else "21"), p["cycle_mode"], "stop-" + p.get("stop_mode", "app")]
            if any(n == 1 for n in ns):
                labels.append("single-frame")
            if any(2 <= n <= 14 for n in ns):
                labels.append("2..14 DTC")
            if any(n >= 15 for n in ns):
                labels.append(">=15 DTC")
            if any(n >= 100 for n in ns):
                labels.append(">=100 DTC")
            return {"violations": viol, "labels": labels, "nontrivial": multi,
                    "sample": {"dll": p["dll"], "cycle_mode": p["cycle_mode"], "cycles": [{"n": c["n"], "lamps": c["lamps"]} for c in p["cycles"]]}}
        n = self._codec(p, V)
        return {"violations": viol, "labels": [p["k"]], "nontrivial": True, "subruns": n, "sample": p}


CHECK = C16()
