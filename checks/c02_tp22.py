"""C02 - J1939-22 (FD) transport delivers every accepted message intact, exactly once, for up to
8 RTS/CTS + 4 BAM simultaneous sessions per stack, in both directions; a call beyond that
capacity returns False, emits nothing and disturbs nothing.

Generated networks of 2-3 real FD stacks; messages are submitted in bursts (same instant), so
the reference capacity model knows exactly which calls must be accepted.  Oracle: reference
delivery multiset per listener + capacity model.  DESIGN.md 5/C02.
"""
import collections
from hypothesis import strategies as st

from vlib import netmodel as N
from vlib import simbus


def _strategy():
    @st.composite
    def build(draw):
        base = draw(N.net_strategy("j1939-22", max_stacks=3, max_msgs=1, allow_zero_latency=False))
        ns = len(base["stacks"])
        template = base["msgs"][0]
        msgs = []
        nb = draw(st.integers(1, 2))
        for b in range(nb):
            n_in_burst = draw(st.sampled_from([1, 2, 3, 5, 8, 9, 10, 13, 14]))
            origin_mode = draw(st.sampled_from(["one", "one", "both", "all"]))
            o0 = draw(st.integers(0, ns - 1))
            for i in range(n_in_burst):
                si = o0 if origin_mode == "one" else (o0 + i) % (2 if origin_mode == "both" else ns)
                si %= ns
                ci = draw(st.integers(0, len(base["stacks"][si]["cas"]) - 1))
                kind = draw(st.sampled_from(["p2p", "p2p", "p2p", "p2p", "bc1", "bc2", "unowned"]))
                m = {"t": b, "src": [si, ci], "kind": kind, "dp": draw(st.integers(0, 1)), "prio": draw(st.integers(0, 7)),
                     "ctx": draw(st.sampled_from(["app", "app", "app", "timer", "on_rx"])),
                     "pl": draw(N.payload_spec(N.lengths_22(), 60)),
                     "dt_ms": draw(st.sampled_from([0, 0, 0, 0.3, 1, 2, 10, 30, 80]))}
                if i >= 3 and m["pl"]["n"] > 2000:
                    m["pl"]["n"] = 61 + m["pl"]["n"] % 1000      # keep big bursts cheap
                if kind == "bc2":
                    m["pf"], m["ps"] = draw(st.integers(240, 255)), draw(st.integers(0, 255))
                else:
                    m["pf"] = draw(N.pdu1_format(m["dp"]))
                    if kind == "p2p":
                        others = [(i2, j) for i2 in range(ns) if i2 != si for j in range(len(base["stacks"][i2]["cas"]))]
                        m["dst"] = list(draw(st.sampled_from(others)))
                    elif kind == "unowned":
                        used = {c["addr"] for s in base["stacks"] for c in s["cas"]}
                        m["dst_addr"] = draw(st.integers(0, 253).filter(lambda a: a not in used))
                msgs.append(m)
        # staggered submission inside a burst only when the burst can never exceed the capacity of any stack
        for b in range(nb):
            cnt = collections.Counter()
            for m in msgs:
                if m["t"] == b:
                    cnt[(m["src"][0], "bam" if m["kind"] in ("bc1", "bc2") else "rts")] += 1
            if any(v > (4 if k[1] == "bam" else 8) for k, v in cnt.items()):
                for m in msgs:
                    if m["t"] == b:
                        m["dt_ms"] = 0
                        m["ctx"] = "app"
        # structured shape (one case in five): two broadcasts of one stack handed over from different contexts a fraction of a
        # millisecond apart while frame writes take 2 ms - the second call arrives while the first announcement is being written
        if len(msgs) >= 2 and draw(st.sampled_from([False, False, False, False, True])):
            b0 = msgs[0]["t"]
            same = [m for m in msgs if m["t"] == b0]
            cnt_b = sum(1 for m in same if m["kind"] in ("bc1", "bc2"))
            if len(same) >= 2 and cnt_b <= 2:
                a, b = same[0], same[1]
                b["src"] = list(a["src"])
                for m, kind, ctx, dt in ((a, "bc2", "timer", 0), (b, "bc2", "app", draw(st.sampled_from([0.3, 1])))):
                    m["kind"], m["ctx"], m["dt_ms"] = kind, ctx, dt
                    m["pf"], m["ps"] = draw(st.integers(240, 255)), draw(st.integers(0, 255))
                    m.pop("dst", None)
                    m.pop("dst_addr", None)
                base["stacks"][a["src"][0]]["tx_time"] = 0.002
        base["msgs"] = msgs
        return N.limit_tx_time(base)
    return build()


class C02:
    ID = "C02"
    DLL = "j1939-22"
    LEVEL = "exploration"
    TECHNIQUE = ("property-based testing: generated FD networks with bursts of simultaneous sessions in virtual time vs. a "
                 "reference delivery model and a reference capacity model")
    RULE = ("Hypothesis builds 2-3 real J1939-22 stacks (1-2 CAs each, optional unfiltered ECU listener, max_cmdt_packets 1..255, "
            "latency lists over (0, 5 ms]) and 1-2 bursts of 1..14 messages of 61..20000 bytes (all residues mod 60; RTS/CTS, "
            "PDU1->255, PDU2, unowned destination) submitted in the same instant from one, two or all stacks (bursts that cannot "
            "exceed a capacity are also staggered by 2..80 ms "
            "and submitted from the application context, from a timer callback of the stack or from inside a receive callback; "
            "send calls take 0..2 ms, receive callbacks 0..20 ms; one case in five hands two broadcasts of one stack over from a "
            "timer callback and from the application 0.3-1 ms apart while frame writes take 2 ms); per stack the "
            "first 8 destination-specific and first 4 broadcast calls of a burst must return True and be delivered per the "
            "reference delivery model, every further one must return False without emitting a frame; non-trivial = >= 2 "
            "concurrent sessions of one stack or traffic in both directions; distinct = distinct parameter sets")
    ASSUMPTIONS = [
        "delivery latencies strictly positive (replies are processed after the handler that caused them has finished)",
        "calls of one burst are made back to back in zero virtual time, a later burst starts after the reference upper "
        "bound of every earlier session plus 0.5 s",
    ]
    shrink_lists = ("msgs",)
    shrink_min = {"msgs": 1}
    BAM_DT = 0.01

    def strategy(self, tier):
        return _strategy()

    def examples(self, tier):
        return 600 if tier == "quick" else 90000

    def enumerate(self, tier):
        return []

    def exhaustive(self, tier):
        return False

    def valid(self, p):
        return len(p.get("msgs", [])) >= 1

    def run_case(self, p):
        viol = []

        def V(kind, msg, site=""):
            viol.append({"kind": kind, "msg": msg, "bucket": "C02|%s|%s" % (kind, site)})

        # burst times
        bursts = sorted({m["t"] for m in p["msgs"]})
        t_of = {}
        t = 0.05
        for b in bursts:
            t_of[b] = t
            dur = max(N.duration_bound(p, m, self.BAM_DT) for m in p["msgs"] if m["t"] == b)
            # sessions of one stack share the bus: scale by the number of concurrent sessions
            nconc = max(collections.Counter(m["src"][0] for m in p["msgs"] if m["t"] == b).values())
            t += dur * max(1, nconc) + 3.5 + 0.5 + 0.1
        horizon = t
        w, stacks = N.build_world(p)
        results = {}
        emitted = {}
        try:
            import vlib.world as W
            waves = sorted({(m["t"], m.get("dt_ms", 0)) for m in p["msgs"]})
            for (b, dtm) in waves:
                def submit(mi, m):
                    if mi in results:
                        return
                    stk = stacks[m["src"][0]]
                    ca = stk.cas["ca%d" % m["src"][1]]
                    data = W.make_payload(m["pl"])
                    ps = N.dest_addr(p, m) if m["kind"] != "bc2" else m["ps"]
                    k0 = len(w.bus.log)
                    results[mi] = (w.sim.now, "EXC:pending", bytes(data))
                    try:
                        r = ca.send_pgn(m["dp"], m["pf"], ps, m["prio"], list(data))
                    except Exception as e:  # noqa
                        r = "EXC:%s:%s" % (type(e).__name__, str(e)[:120])
                    results[mi] = (results[mi][0], r, bytes(data))
                    emitted[mi] = len(w.bus.log) - k0

                def burst(b=b, dtm=dtm):
                    for mi, m in enumerate(p["msgs"]):
                        if m["t"] != b or m.get("dt_ms", 0) != dtm:
                            continue
                        ctx = m.get("ctx", "app")
                        stk = stacks[m["src"][0]]
                        if ctx == "timer":
                            # from a timer callback of the stack (its own job thread)
                            stk.ecu.add_timer(0.0, lambda cookie, mi=mi, m=m: (submit(mi, m), False)[1])
                        elif ctx == "on_rx":
                            # from inside the application's receive callback (next delivery to this stack), or from the
                            # application context 0.3 s later when nothing arrives
                            stk.rx_hooks.append(lambda lname, mi=mi, m=m: submit(mi, m))
                            w.sim.schedule(w.sim.now + 0.3, lambda mi=mi, m=m: submit(mi, m))
                        else:
                            submit(mi, m)
                w.at(t_of[b] + dtm / 1000.0, burst)
            w.run_until(w.t0 + horizon)
            for kind, detail, tt in w.liveness_problems():
                V("liveness-" + kind, "%s %r at t=%.6f" % (kind, detail, tt - 1000))
            for stk in stacks:
                if not stk.alive() and not w.liveness_problems():
                    V("liveness-thread-dead", "%s: %r" % (stk.name, stk.dead_threads()))
            # capacity model
            nconc_max = 0
            for b in bursts:
                cnt = collections.Counter()
                for mi, m in enumerate(p["msgs"]):
                    if m["t"] != b:
                        continue
                    kind = "bam" if m["kind"] in ("bc1", "bc2") else "rts"
                    key = (m["src"][0], kind)
                    cnt[key] += 1
                    cap = 4 if kind == "bam" else 8
                    r = results.get(mi)
                    if r is None:
                        V("not-submitted", "message %d not submitted" % mi)
                        continue
                    if cnt[key] <= cap:
                        if r[1] is False:
                            V("refused-below-capacity", "burst %d: call #%d of kind %s on stack %d returned False; the stack "
                              "advertises %d simultaneous %s sessions" % (b, cnt[key], kind, m["src"][0], cap, kind), kind)
                        elif r[1] is not True:
                            V("send-raised", "message %d: %r" % (mi, r[1]), kind)
                    else:
                        if r[1] is not False:
                            V("accepted-beyond-capacity", "burst %d: call #%d of kind %s on stack %d returned %r, capacity is %d"
                              % (b, cnt[key], kind, m["src"][0], r[1], cap), kind)
                        if emitted.get(mi):
                            V("refused-call-emitted-frames", "a refused send_pgn put %d frame(s) on the bus" % emitted[mi], kind)
                for (si, kind), n in cnt.items():
                    nconc_max = max(nconc_max, sum(v for (s2, _), v in cnt.items() if s2 == si))
            N.judge_deliveries(p, stacks, results, V, "22")
            for stk in stacks:
                ps = stk.peek_sessions()
                if ps is not None and any(ps):
                    V("session-left", "%s: session tables not empty at the horizon (rcv,snd,mpg)=%r" % (stk.name, ps))
                    break
        finally:
            w.close()
        origins = {m["src"][0] for m in p["msgs"]}
        bidir = False
        pairs = set()
        for m in p["msgs"]:
            if m["kind"] == "p2p":
                pairs.add((m["src"][0], m["dst"][0]))
        bidir = any((b2, a) in pairs for a, b2 in pairs)
        labels = ["stacks=%d" % len(p["stacks"]), "bursts=%d" % len(bursts)]
        if nconc_max >= 2:
            labels.append("concurrent>=2")
        if nconc_max >= 9:
            labels.append("over-capacity-probe")
        if bidir:
            labels.append("bidirectional")
        if any(m.get("dt_ms", 0) for m in p["msgs"]):
            labels.append("staggered")
        for c in ("timer", "on_rx"):
            if any(m.get("ctx") == c for m in p["msgs"]):
                labels.append("ctx=" + c)
        if any(m["pl"]["n"] % 60 == 0 for m in p["msgs"]):
            labels.append("len%60==0")
        if any(m["pl"]["n"] > 5000 for m in p["msgs"]):
            labels.append("len>5000")
        return {"violations": viol, "labels": labels, "nontrivial": nconc_max >= 2 or bidir,
                "sample": {"stacks": [{k: s[k] for k in ("max_cmdt", "lat")} for s in p["stacks"]],
                           "msgs": [{"burst": m["t"], "src": m["src"][0], "kind": m["kind"], "n": m["pl"]["n"]} for m in p["msgs"][:10]],
                           "n_msgs": len(p["msgs"])}}


CHECK = C02()
