"""C14 - PGN requests reach exactly the addressed operational CAs; claims are answered.

Generated configurations (J1939-21): a requester CA with or without an address; 1..3 responder CAs
per stack on 1..2 stacks, each brought into a generated claim state (not started, waiting for veto,
operational after claiming, bypassed, cannot-claim after a lost contest, moved after a lost
contest); then, per configuration, EVERY destination address 0..255 is requested for a set of PGNs
(boundaries incl. the address-claim PGN, random ones).  Oracle: reference dispatch.  DESIGN.md 5/C14.
"""
from hypothesis import strategies as st

from vlib import world as W
from vlib import simbus
from vlib import refcodec as R

PGN_B = [0, 1, 0xEE00 - 1, 0xEE00 + 1, 0xEEFF, 0xEA00, 0xFECA, 0xFFFF, 0x10000, 0x1EE00, 0x1FFFF, 0x20000, 0x2EE00, 0x3FFFF]
STATES = ["bypass", "bypass", "none", "wait_veto", "claimed", "cannot_claim", "moved"]


def _strategy():
    @st.composite
    def build(draw):
        nst = draw(st.integers(1, 2))
        addrs = draw(st.lists(st.integers(0, 120), min_size=8, max_size=8, unique=True))
        # boundary addresses for the requester (0 is a legal address) - responders prefer odd addresses, so even ones are free
        req_addr = draw(st.sampled_from([None, None, 0x00, 0x02, 0x80, 0xF8, 0xFC]))
        ai = 0
        stacks = []
        for i in range(nst):
            cas = []
            for k in range(draw(st.integers(1, 3))):
                stt = draw(st.sampled_from(STATES))
                a = addrs[ai] * 2 + 1          # odd addresses: 'moved' CAs walk to the even one above, which nobody prefers
                ai += 1
                if i == 0 and k == 0 and stt in ("bypass", "claimed", "none"):
                    a = draw(st.sampled_from([a, a, 0x01, 0xFD, 0x7F, 0xF7]))     # boundary addresses of the ranges
                if stt == "wait_veto":
                    a = 129 + (a % 100)
                    a |= 1
                ncb = draw(st.sampled_from([1, 1, 2, 3]))          # request callbacks of this CA ...
                one = draw(st.sampled_from([None, None, 0, 1]))   # ... one of which may unsubscribe itself at its first call
                cas.append({"state": stt, "addr": a, "ncb": ncb, "oneshot": one if (one is not None and one < ncb) else None})
            stacks.append(cas)
        return {"stacks": stacks,
                "req_has_addr": draw(st.sampled_from([True, True, False])),
                "req_addr": req_addr if req_addr is not None else addrs[7] * 2 + 1,
                "pgns": [0xEE00] + draw(st.lists(st.one_of(st.sampled_from(PGN_B), st.integers(0, 0x3FFFF)), min_size=2, max_size=3)),
                "tx_time": draw(st.sampled_from([0.0, 0.0, 0.002, 0.005])),
                # after the sweep: one more global request during which the first request callback of CA k of stack 0 removes its
                # own CA from the ECU (remove_ca) - the stack's other CAs are still asked, once each
                "remove": draw(st.sampled_from([None, None, 0, 1, "app"])),
                "lat": draw(st.lists(st.sampled_from(simbus.LATENCY_GRID[1:6]), min_size=1, max_size=2))}
    return build()


class C14:
    ID = "C14"
    LEVEL = "exploration"
    TECHNIQUE = ("property-based configuration generation (Hypothesis) with an exhaustive inner sweep over all 256 destination "
                 "addresses, oracle = reference dispatch table over public CA state")
    RULE = ("a case is a configuration: requester with/without address, 1-2 responder stacks with 1-3 CAs each in a generated "
            "claim state (bypassed, not started, waiting for veto, operational after claiming, cannot-claim after a lost contest, "
            "moved to the next address after a lost contest) and 1-3 request callbacks (one of which may unsubscribe itself at its first "
            "call), 3-4 requested PGNs (always 0xEE00, boundaries of the 18-bit space "
            "incl. data page 1, random) ; inside the case every destination 0..255 is requested for every PGN ('subruns'); "
            "in half of the cases one more global request follows during which a CA of stack 0 removes itself from its ECU inside its request callback; "
            "non-trivial = configuration with at least one address-less responder CA or at least two responder CAs; distinct = "
            "distinct configurations; exhaustive over destinations per configuration")
    ASSUMPTIONS = [
        "send_request is called with data_page=0 (only then is the frame a J1939 Request, PGN 59904); the data-page bit of the "
        "requested PGN is varied instead",
        "which CA owns which address at the instant of the request is read from the CAs' public state/device_address",
    ]
    shrink_lists = ()

    def strategy(self, tier):
        return _strategy()

    def examples(self, tier):
        return 600 if tier == "quick" else 80000

    def enumerate(self, tier):
        return []

    def exhaustive(self, tier):
        return False

    def coverage_note(self, tier):
        return "all 256 destination addresses are enumerated for every generated configuration and requested PGN"

    def run_case(self, p):
        viol = []

        def V(kind, msg, site=""):
            viol.append({"kind": kind, "msg": msg, "bucket": "C14|%s|%s" % (kind, site)})

        lat = {"Q": p["lat"], "X": [0.0002]}
        for i in range(len(p["stacks"])):
            lat["S%d" % i] = p["lat"]
        if p.get("remove") == "app":
            # (this variant needs three operational CAs on stack 0)
            st0 = [dict(c) for c in p["stacks"][0]][:3]
            used = {c["addr"] for cas in p["stacks"] for c in cas} | {p["req_addr"]}
            free = [a for a in (0x11, 0x13, 0x15, 0x17, 0x19, 0x1B) if a not in used]
            while len(st0) < 3:
                st0.append({"state": "bypass", "addr": free.pop(0), "ncb": 1, "oneshot": None})
            for c in st0:
                if c["state"] != "bypass":
                    c["state"] = "bypass"
            p = dict(p, stacks=[st0] + [list(x) for x in p["stacks"][1:]])
        w = W.World(latency=lat)
        nreq = 0
        try:
            j = W.load()
            State = j.ControllerApplication.State
            q = w.stack("Q", dll="j1939-21")
            qca = q.add_ca("q", 0x7000, p["req_addr"], bypass=p["req_has_addr"])
            raw = simbus.RawNode(w.bus, "X")
            resp = []       # (stack, name, ca, name value, cfg)
            calls = []
            registered = set()   # (stack, ca, callback index) currently subscribed
            for i, cas in enumerate(p["stacks"]):
                stk = w.stack("S%d" % i, dll="j1939-21", tx_time=p.get("tx_time", 0.0))
                for k, c in enumerate(cas):
                    nv = 0x100000 + 0x1000 * i + 0x10 * k + 5
                    if c["state"] == "moved":
                        nv |= 1 << 63
                    ca = stk.add_ca("c%d" % k, nv, c["addr"], bypass=(c["state"] == "bypass"))
                    for m in range(c.get("ncb", 1)):
                        def mk(i=i, k=k, m=m, ca=ca, one=(c.get("oneshot") == m)):
                            def cb(src, dest, pgn):
                                calls.append((i, k, m, src, dest, pgn))
                                if one and (i, k, m) in registered:
                                    registered.discard((i, k, m))
                                    ca.unsubscribe_request(cb)
                            return cb
                        registered.add((i, k, m))
                        ca.subscribe_request(mk())
                    resp.append((stk, "S%d.c%d" % (i, k), ca, nv, c))
            # scripted prefixes
            for (stk, nm, ca, nv, c) in resp:
                if c["state"] in ("claimed", "cannot_claim", "moved"):
                    ca.start(0.0)
            # a node without an address asks everybody for their address claim while the initial claims are being written
            # (frame writes of the responder stacks take 0 / 2 / 5 ms): nobody has lost anything yet, so no answer and no
            # claim may come from the null address
            k_early = len(w.bus.log)
            for dt_ in (0.0005, 0.001, 0.003, 0.0045, 0.2):
                w.at(w.sim.now - w.t0 + dt_, lambda: raw.send(R.mk_id(6, 0, 0xEA, 255, 254), [0x00, 0xEE, 0x00]))
            w.run_for(0.6)
            names = {bytes(R.name_bytes(nv)): nm for (stk, nm, ca, nv, c) in resp}
            all_addrs = [c["addr"] for (stk, nm, ca, nv, c) in resp] + [p["req_addr"]]
            # (only when all configured addresses differ: two CAs configured for one address do contend as soon as one answers)
            for e in (w.bus.log[k_early:] if len(set(all_addrs)) == len(all_addrs) else []):
                f = R.id_fields(e.can_id)
                if e.node.startswith("S") and f["pf"] == 0xEE and f["sa"] == 254 and bytes(e.data) in names:
                    V("claim-from-null-address-before-any-loss", "CA %s put an address-claimed frame from address 254 on the bus at "
                      "t=%.4f although it has not lost any contest (it was asked for its claim while its initial claim was being "
                      "written)" % (names[bytes(e.data)], e.t - w.t0), "early")
                    break
            for (stk, nm, ca, nv, c) in resp:
                if c["state"] in ("cannot_claim", "moved"):
                    raw.send(R.mk_id(6, 0, 0xEE, 255, c["addr"]), R.name_bytes(0x10))      # lower NAME takes the address
            w.run_for(0.8)
            for (stk, nm, ca, nv, c) in resp:
                if c["state"] == "wait_veto":
                    ca.start(0.0)
            w.run_for(0.01)      # claims of the wait_veto CAs are out; their veto window (250 ms) is still open
            settle = 2 * max(p["lat"]) + 0.0005
            first = []
            for (stk, nm, ca, nv, c) in resp:
                first += [c["addr"], c["addr"] + 1]
            first += [255, 254, p["req_addr"]]
            order = list(dict.fromkeys(first + list(range(256))))
            skipped = 0
            for pgn in p["pgns"]:
                for dest in order:
                    own = {nm: (ca.state, ca.device_address) for (stk, nm, ca, nv, c) in resp}
                    reg0 = set(registered)
                    calls.clear()
                    k0 = len(w.bus.log)
                    exc = None
                    try:
                        qca.send_request(0, pgn, dest)
                    except Exception as e:  # noqa
                        exc = e
                    w.run_for(settle)
                    if own != {nm: (ca.state, ca.device_address) for (stk, nm, ca, nv, c) in resp}:
                        skipped += 1          # a claim state changed while the request was in flight: ownership ambiguous
                        continue
                    nreq += 1
                    new = w.bus.log[k0:]
                    reqf = [e for e in new if e.node == "Q"]
                    site = "claim-pgn" if pgn == 0xEE00 else "pgn"
                    if not p["req_has_addr"] and pgn != 0xEE00:
                        if exc is None or reqf:
                            V("request-without-address", "requester without address: send_request(pgn 0x%X) %s and put %d frame(s) on "
                              "the bus" % (pgn, "did not raise" if exc is None else "raised", len(reqf)), site)
                            break
                        continue
                    if exc is not None:
                        V("request-raised", "send_request(0, 0x%X, %d) raised %r" % (pgn, dest, exc), site)
                        break
                    src = p["req_addr"] if p["req_has_addr"] else 254
                    exp_id = R.mk_id(6, 0, 0xEA, dest, src)
                    exp_data = bytes(R.pgn_le(pgn))
                    if len(reqf) != 1 or reqf[0].can_id != exp_id or reqf[0].data != exp_data:
                        V("request-encoding", "send_request(0, 0x%X, %d) put %s on the bus; reference: id 0x%08X data %s" %
                          (pgn, dest, ["0x%08X:%s" % (e.can_id, e.data.hex()) for e in reqf], exp_id, exp_data.hex()), site)
                        break
                    # reference dispatch
                    owners = []
                    for (stk, nm, ca, nv, c) in resp:
                        stt, adr = own[nm]
                        if stt == State.NORMAL and (dest == 255 or adr == dest):
                            owners.append(nm)
                    got_calls = sorted(("S%d.c%d#%d" % (i, k, m), s_, d_, g_) for (i, k, m, s_, d_, g_) in calls)
                    claims = [(e.node, e.can_id & 0xFF, bytes(e.data)) for e in new if e.node != "Q" and ((e.can_id >> 16) & 0xFF) == 0xEE]
                    others = [e for e in new if e.node not in ("Q",) and ((e.can_id >> 16) & 0xFF) != 0xEE]
                    if pgn == 0xEE00:
                        if got_calls:
                            V("callback-for-claim-request", "request for the address-claim PGN invoked request callbacks %r" % (got_calls[:2],), site)
                            break
                        exp_claims = sorted((nm.split(".")[0], own[nm][1], bytes(R.name_bytes(nv)))
                                            for (stk, nm, ca, nv, c) in resp if nm in owners)
                        if sorted(claims) != exp_claims:
                            V("claim-answer", "request for address claim to %d: answers %r, reference expects %r" %
                              (dest, [(n, a, d.hex()) for n, a, d in sorted(claims)], [(n, a, d.hex()) for n, a, d in exp_claims]), site)
                            break
                    else:
                        exp_calls = sorted(("S%d.c%d#%d" % (i, k, m), src, dest, pgn) for (i, k, m) in reg0 if "S%d.c%d" % (i, k) in owners)
                        if got_calls != exp_calls:
                            miss = [c for c in exp_calls if c not in got_calls]
                            extra = [c for c in got_calls if c not in exp_calls]
                            kind = "callback-missing" if miss else ("callback-duplicate" if any(got_calls.count(c) > 1 for c in got_calls) and not
                                                                      [c for c in set(extra) if c not in exp_calls] else "callback-unexpected")
                            V(kind, "request(pgn 0x%X) to %d from %d: callbacks %r, reference expects %r (CA states %r)" %
                              (pgn, dest, src, got_calls[:4], exp_calls[:4], {k: v for k, v in own.items()}), site)
                            break
                        if claims or others:
                            V("unexpected-answer-frame", "request(pgn 0x%X) to %d caused frames %r" %
                              (pgn, dest, ["0x%08X" % e.can_id for e in new if e.node != "Q"][:3]), site)
                            break
                else:
                    continue
                break
            # ---- removal phase
            rm = p.get("remove")
            cas0 = [(stk, nm, ca, nv, c) for (stk, nm, ca, nv, c) in resp if nm.startswith("S0.")]
            if rm == "app" and not viol:
                # the APPLICATION removes the second CA of stack 0 while the stack is answering a global request for address claimed
                # (every answer write takes 4 ms, the removal comes 2 ms into the first one): the CAs behind it still answer
                ok_cas = [x for x in cas0 if x[2].state == State.NORMAL]
                if len(cas0) >= 3 and cas0[0][2].state == State.NORMAL and cas0[2][2].state == State.NORMAL:
                    stk0 = cas0[0][0]
                    stk0.tx_all_contexts, stk0.tx_time = True, 0.004
                    k0 = len(w.bus.log)
                    removed = []

                    def tap(e):
                        if e.node == "S0" and ((e.can_id >> 16) & 0xFF) == 0xEE and e.k > k0 and not removed:
                            removed.append(None)
                            w.sim.schedule(w.sim.now + 0.002, lambda: removed.__setitem__(0, stk0.ecu.remove_ca(cas0[1][4]["addr"])))
                    w.bus.taps.append(tap)
                    own = {nm: (ca.state, ca.device_address) for (stk, nm, ca, nv, c) in resp}
                    try:
                        qca.send_request(0, 0xEE00, 255)
                    except Exception:  # noqa (a requester without address asks from 254 - allowed; anything else was judged above)
                        pass
                    w.run_for(settle + 0.004 * (len(cas0) + 1) + 0.02)
                    w.bus.taps.remove(tap)
                    if removed == [True]:
                        nreq += 1
                        got = {(e.node, e.can_id & 0xFF) for e in w.bus.log[k0:] if ((e.can_id >> 16) & 0xFF) == 0xEE and e.node == "S0"}
                        for (stk, nm, ca, nv, c) in cas0[2:]:
                            if own[nm][0] == State.NORMAL and ("S0", own[nm][1]) not in got:
                                V("claim-answer", "global request for address claimed during which the application removed CA %s (remove_ca, "
                                  "2 ms into the first answer write): operational CA %s (address %d) did not answer; answers came from %r"
                                  % (cas0[1][1], nm, own[nm][1], sorted(a for (_, a) in got)), "remove_ca")
                                break
            elif rm is not None and rm != "app" and rm < len(cas0) and len(cas0) >= 2 and p["req_has_addr"] and not viol:
                stk0, nm_r, ca_r, nv_r, c_r = cas0[rm]
                removed = []

                def remover(src, dest, pgn):
                    if not removed:
                        removed.append(stk0.ecu.remove_ca(c_r["addr"]))
                # (registered through the public API; it runs after the CA's other callbacks - the removal still happens inside
                # the dispatch of this request to the stack's CAs)
                ca_r.subscribe_request(remover)
                own = {nm: (ca.state, ca.device_address) for (stk, nm, ca, nv, c) in resp}
                reg0 = set(registered)
                calls.clear()
                pgn_r = 0xFEDA
                qca.send_request(0, pgn_r, 255)
                w.run_for(settle)
                if own[nm_r][0] == State.NORMAL and removed == [True] and \
                        {nm: (ca.state, ca.device_address) for (stk, nm, ca, nv, c) in resp} == own:
                    nreq += 1
                    src = p["req_addr"]
                    got_calls = sorted(("S%d.c%d#%d" % (i, k, m), s_, d_, g_) for (i, k, m, s_, d_, g_) in calls)
                    exp_calls = sorted(("S%d.c%d#%d" % (i, k, m), src, 255, pgn_r) for (i, k, m) in reg0
                                       if own["S%d.c%d" % (i, k)][0] == State.NORMAL)
                    # (the removed CA's own callbacks ran before the remover; the ones of the others are what is judged)
                    miss = [c_ for c_ in exp_calls if c_ not in got_calls]
                    if miss:
                        V("callback-missing", "global request during which CA %s removed itself from its ECU (remove_ca inside its request "
                          "callback): operational CAs of the same stack were not asked: missing %r" % (nm_r, miss[:3]), "remove_ca")
                    elif any(got_calls.count(c_) > 1 for c_ in got_calls):
                        V("callback-duplicate", "global request with remove_ca inside a callback: %r" % (got_calls[:4],), "remove_ca")
            live = w.liveness_problems()
            actual = sorted({"%s->%s" % (c["state"], {State.NONE: "NONE", State.WAIT_VETO: "WAIT_VETO", State.NORMAL: "NORMAL",
                                                       State.CANNOT_CLAIM: "CANNOT_CLAIM"}.get(ca.state, "?") +
                             ("" if ca.state != State.NORMAL else ("@pref" if ca.device_address == c["addr"] else "@moved")))
                             for (stk, nm, ca, nv, c) in resp})
        finally:
            w.close()
        for k2, detail, tt in live:
            V("liveness-" + k2, "%s %r" % (k2, detail))
        n_ca = sum(len(c) for c in p["stacks"])
        addrless = any(c["state"] in ("none", "wait_veto", "cannot_claim") for cas in p["stacks"] for c in cas)
        labels = ["cas=%d" % n_ca, "req-addr" if p["req_has_addr"] else "req-null"]
        labels += actual
        if skipped:
            labels.append("some-requests-skipped(state-change-in-flight)")
        return {"violations": viol, "labels": labels, "nontrivial": addrless or n_ca >= 2, "subruns": max(1, nreq),
                "sample": {"stacks": p["stacks"], "req_has_addr": p["req_has_addr"], "pgns": ["0x%X" % g for g in p["pgns"]]}}


CHECK = C14()
