"""C19 - a second DM14 requester never disturbs or joins a running transaction.

Fault enumeration: every transaction shape (read/write x seed-key on/off x single-frame /
multi-packet data) is run once without intruder (baseline: N bus frames, client result, server
callbacks, respond() result); then for EVERY k in 1..N-1 an intruding DM14 is put on the bus right
after frame k (it reaches the server before the closing DM14 does) - from another source address,
or from the running requester's address with another pointer - once or three times in a row.
Oracle: differential against the baseline + 'the only answer is a failed/busy DM15 to the sender'.
DESIGN.md 5/C19.
"""
from hypothesis import strategies as st

from vlib import dm14scen as D
from vlib import refcodec as R
from vlib import simbus
from vlib import simkernel as sk

ADDR = 0x92000003
OTHER_PTR = 0x91000007


def shapes():
    out = []
    for op in ("read", "write"):
        for sk_ in (None, [3, 0x1234]):
            for nbytes in (4, 20):
                for intr in ("other_sa", "other_sa_other_ptr", "own_sa_other_ptr"):
                    for icmd in ("read", "write"):
                        for copies in (1, 3):
                            out.append({"op": op, "seed_key": sk_, "nbytes": nbytes, "intruder": intr, "copies": copies, "icmd": icmd})
    return out


class C19:
    ID = "C19"
    LEVEL = "fault_enumeration"
    TECHNIQUE = ("fault enumeration in virtual time: an intruding request injected after every bus frame of every transaction "
                 "shape, differential oracle against the undisturbed run; payloads, seeds and latencies drawn by Hypothesis")
    RULE = ("a case is (transaction shape, intruder kind, copies, draw): shapes = read/write x seed-key on/off x 4 / 20 data bytes; "
            "intruder = DM14 read or write request from another source address (same or another pointer), or from the running "
            "requester's address with another pointer, injected once or three times; inside a case the undisturbed run gives N bus frames and then one run per "
            "k in 1..N-1 injects the intruder right after frame k ('subruns'); for the shapes without seed/key and a foreign source address "
            "the undisturbed run is followed by a change of roles on the same objects - the serving controller application runs a query "
            "of its own (answered after 20 ms) during which the foreign DM14 arrives: busy answer, own result and notifications are judged; non-trivial = a run in which the server answered "
            "the intruder; distinct = distinct (shape, k); exhaustive over k per shape")
    ASSUMPTIONS = [
        "the window is the statement's: from the first DM14 until the server has received the closing DM14 (k = N, after the "
        "closing frame, is outside: the transaction is over and serving a newcomer is correct)",
        "an answer to an intruder must be a DM15 with status 'operation failed' or 'busy' addressed to the sender; the value of the "
        "error indicator is recorded but not judged",
        "for an intruder that uses the running requester's own address the busy answer reaches the running client, which may "
        "then legitimately fail; only 'never served' and 'answer is failed/busy' are judged there",
    ]
    shrink_lists = ()

    def strategy(self, tier):
        lat = st.sampled_from([0.0002, 0.0005, 0.001, 0.0025])
        return st.builds(lambda sh, ds, seeds, lc, ls, cm, sas: dict(sh, data_seed=ds, seeds=seeds, lat={"C": [lc], "S": [ls]}, max_cmdt=cm, sas=sas),
                         st.sampled_from(shapes()), st.integers(0, 10 ** 5),
                         st.lists(st.integers(0, 0xFFFF), min_size=1, max_size=3, unique=True), lat, lat,
                         st.sampled_from([[1, 1], [255, 255], [2, 1]]), st.sampled_from([[0xF9, 0xD4, 0xA7], [0xF9, 0xD4, 0xA7], [0x00, 0xD4, 0xA7], [0x01, 0x00, 0xFD], [0xFD, 0x80, 0x00], [0x7F, 0xFD, 0x01]]))

    def examples(self, tier):
        return 48 if tier == "quick" else 30000

    def enumerate(self, tier):
        out = []
        for i, sh in enumerate(shapes()):
            for sas in ([0xF9, 0xD4, 0xA7], [0x00, 0xD4, 0xA7]):       # incl. the boundary requester address 0
                if sas[0] == 0 and sh["copies"] == 3 and sh["nbytes"] == 4:
                    continue
                # the seed generator is NOT constant: every draw gives another seed (a redraw during a transaction is visible)
                out.append(dict(sh, data_seed=7 + i, seeds=[0xA55A, 0x1234, 0x0F0F, 0xFFFE], lat={"C": [0.0005], "S": [0.0005]},
                                max_cmdt=[1, 1], sas=sas))
        return out

    def exhaustive(self, tier):
        return True

    def coverage_note(self, tier):
        return "exhaustive over the injection point k (every bus frame of the undisturbed transaction except the closing one), per shape"

    def _one(self, p, k):
        SA_C, SA_S, SA_I = p.get("sas", [D.SA_C, D.SA_S, D.SA_I])
        size = 1
        count = p["nbytes"]
        inject = None
        if k is not None:
            if p["intruder"] == "other_sa":
                sa, ptr = SA_I, ADDR
            elif p["intruder"] == "other_sa_other_ptr":
                sa, ptr = SA_I, OTHER_PTR
            else:
                sa, ptr = SA_C, OTHER_PTR
            cmd = 2 if p.get("icmd") == "write" else 1
            data = [count, (1 << 4) + (cmd << 1) + 1] + list(ptr.to_bytes(4, "little")) + [0x07, 0x00]
            fr = simbus.mkframe(R.mk_id(6, 0, 0xD9, SA_S, sa), data)
            inject = [{"after_k": k, "node": "I", "frame": fr} for _ in range(p["copies"])]
        pp = {"seed_key": p["seed_key"], "seeds": p["seeds"], "lat": dict(p["lat"], I=[1e-6]), "max_cmdt": p["max_cmdt"],
              "sa_c": SA_C, "sa_s": SA_S, "sa_i": SA_I}
        dw = D.Dm14World(pp, inject=inject)
        try:
            data = D.mem_bytes(p["data_seed"], count)
            tx = {"op": p["op"], "direct": 1, "addr": ADDR, "count": count, "size": size, "raw": True, "signed": False,
                  "max_timeout": 2, "gap_after": 0.05}
            if p["op"] == "write":
                tx["values"] = D.values_for(p["data_seed"], count, size)
            dw.respond_plan = [{"proceed": True, "data": data if p["op"] == "read" else [], "tx": 0}]
            dw.run_client([tx])
            dw.w.run_for(3.0)
            obs = {"result": dict(dw.results[0]) if dw.results else None,
                   "responds": [(x[1], list(x[2]) if x[2] is not None and not isinstance(x[2], str) else x[2]) for x in dw.respond_results],
                   "proceeds": [a for (_, a) in dw.proceed_calls], "notifies": len(dw.notify_calls),
                   "log": list(dw.w.bus.log), "states": dw.peek_states(), "live": dw.w.liveness_problems()}
            # a second, undisturbed transaction must still work (completion / both sides usable)
            data2 = D.mem_bytes(p["data_seed"] + 1, 3)
            dw.results.clear()
            dw.respond_plan = [{"proceed": True, "data": data2, "tx": 1}]
            dw.run_client([{"op": "read", "direct": 1, "addr": ADDR, "count": 3, "size": 1, "raw": True, "signed": False,
                            "max_timeout": 2, "gap_after": 0.0}])
            dw.w.run_for(3.0)
            obs["follow"] = dict(dw.results[0]) if dw.results else None
            obs["follow_expected"] = data2
            if p.get("ownq"):
                # roles change on the same objects: the controller application that has just SERVED two transactions now runs a
                # query of its own (to the former client, which serves it) - and the intruder's DM14 arrives during that query
                q = sk.SimQueue()
                dw.client.set_notify(lambda: q.put(1))
                dw.client.set_proceed(lambda *a: True)       # (a facade without a proceed function never notifies its application)
                data_c = D.mem_bytes(p["data_seed"] + 5, 3)
                res_s = {}

                def c_app():
                    q.get()
                    sk.FAKE_TIME.sleep(0.02)          # (the serving side takes 20 ms: the intruder's DM14 falls into the running query)
                    try:
                        dw.client.respond(True, list(data_c), 0xFFFF, 0xFF, 2)
                    except BaseException as e:  # noqa
                        if isinstance(e, (sk.SimShutdown, sk.SpinDetected)):
                            raise
                        res_s["serve_exc"] = (type(e).__name__, str(e)[:100])

                def s_app():
                    try:
                        v = dw.server.read(SA_C, 1, OTHER_PTR, 3, 1, False, True, 2)
                        res_s["value"] = list(v) if v is not None else None
                    except BaseException as e:  # noqa
                        if isinstance(e, (sk.SimShutdown, sk.SpinDetected)):
                            raise
                        res_s["exc"] = (type(e).__name__, str(e)[:100])
                raw_i = simbus.RawNode(dw.w.bus, "I2")
                k0 = len(dw.w.bus.log)
                n0 = len(dw.notify_calls)
                sk.spawn(c_app, name="client-serves")
                sk.spawn(s_app, name="server-queries")
                idata = [3, (1 << 4) + (1 << 1) + 1] + list(ADDR.to_bytes(4, "little")) + [0x07, 0x00]
                for dt_ in p.get("ownq_at", [0.0008]):
                    dw.w.at(dw.w.sim.now - dw.w.t0 + dt_, lambda: raw_i.send(R.mk_id(6, 0, 0xD9, SA_S, SA_I), idata))
                dw.w.run_for(3.0)
                obs["ownq"] = {"result": res_s, "expected": list(data_c), "notified": len(dw.notify_calls) - n0,
                               "to_i": [e for e in dw.w.bus.log[k0:] if e.node == "S" and ((e.can_id >> 8) & 0xFF) == SA_I]}
            obs["live"] = dw.w.liveness_problems()
        finally:
            dw.close()
        return obs

    def run_case(self, p):
        viol = []
        shape = "%s|%s|%s" % (p["op"], "seedkey" if p["seed_key"] else "plain", "single" if p["nbytes"] <= 7 else "multi")

        def mkV(k):
            def V(kind, msg, site=""):
                pp = dict(p)
                pp["only_k"] = k
                viol.append({"kind": kind, "msg": ("[intruder %s x%d after frame %s] " % (p["intruder"], p["copies"], k)) + msg,
                             "bucket": "C19|%s|%s|%s" % (kind, p["intruder"], shape), "params": pp})
            return V

        base = self._one(dict(p, ownq=(not p["seed_key"] and p["intruder"].startswith("other_sa"))), None)
        V0 = mkV(None)
        oq = base.get("ownq")
        if oq is not None:
            SA_I_ = p.get("sas", [D.SA_C, D.SA_S, D.SA_I])[2]
            if "exc" in oq["result"] or oq["result"].get("value") != oq["expected"]:
                V0("own-query-disturbed", "the controller application's own query (after having served two transactions) returned %r, "
                   "its server supplied %r; an intruder's DM14 arrived during it" % (oq["result"], oq["expected"]), "ownq")
            if oq["notified"]:
                V0("intruder-reached-application", "the application was notified %d time(s) during its own query" % oq["notified"], "ownq")
            for e in oq["to_i"]:
                pf = (e.can_id >> 16) & 0xFF
                status = (e.data[1] >> 1) & 7 if len(e.data) >= 2 else None
                err = (e.data[2] | (e.data[3] << 8) | (e.data[4] << 16)) if len(e.data) >= 5 else None
                if pf != 0xD8 or status not in (1, 5):
                    V0("intruder-answer", "during its own query the controller application sent id 0x%08X data %s to the intruder" %
                       (e.can_id, e.data.hex()), "ownq")
                    break
                if status == 5 and err != 0x000002:
                    V0("intruder-answer-not-busy", "during its own query the controller application answered the intruder with DM15 "
                       "'operation failed' (data %s) carrying the error indicator 0x%06X instead of 0x000002 (busy): it repeats what "
                       "its application last passed to respond()" % (e.data.hex(), err if err is not None else -1), "ownq")
                    break
        for k2, detail, tt in base["live"]:
            V0("liveness-" + k2, "%s %r" % (k2, detail))
        br = base["result"]
        if br is None or "exc" in br:
            V0("baseline-failed", "the undisturbed transaction failed: %r" % (br,))
            return {"violations": viol, "labels": [shape], "nontrivial": False, "subruns": 1}
        n = len(base["log"])
        ks = list(range(1, n)) if p.get("only_k") is None else [p["only_k"]]
        answered = 0
        sigs = []
        for k in ks:
            obs = self._one(p, k)
            V = mkV(k)
            for k2, detail, tt in obs["live"]:
                V("liveness-" + k2, "%s %r" % (k2, detail))
            SA_C, SA_S, SA_I = p.get("sas", [D.SA_C, D.SA_S, D.SA_I])
            # frames addressed to the intruder
            to_i = [e for e in obs["log"] if e.node == "S" and ((e.can_id >> 8) & 0xFF) == SA_I]
            if p["intruder"].startswith("other_sa"):
                for e in to_i:
                    pf = (e.can_id >> 16) & 0xFF
                    status = (e.data[1] >> 1) & 7 if len(e.data) >= 2 else None
                    if pf != 0xD8 or status not in (1, 5):
                        V("intruder-answer", "the server sent id 0x%08X data %s to the intruder; only a DM15 'operation failed / busy' is "
                          "allowed" % (e.can_id, e.data.hex()))
                        break
                    err = (e.data[2] | (e.data[3] << 8) | (e.data[4] << 16)) if len(e.data) >= 5 else None
                    if status == 5 and err != 0x000002:
                        V("intruder-answer-not-busy", "the DM15 'operation failed' sent to the intruder (data %s) carries the error "
                          "indicator 0x%06X instead of 0x000002 (busy): it repeats what the application last passed to respond()"
                          % (e.data.hex(), err if err is not None else -1))
                        break
                if to_i:
                    answered += 1
                    sigs.append((shape, p["intruder"], p["copies"], k))
                # application never consulted for the intruder; data / outcome / completion unchanged
                if obs["proceeds"] != base["proceeds"] or obs["notifies"] != base["notifies"]:
                    extra = [a for a in obs["proceeds"] if a.get("sa") == SA_I]
                    V("intruder-reached-application", "proceed/notify callbacks differ from the undisturbed run (%d/%d vs %d/%d calls%s)" %
                      (len(obs["proceeds"]), obs["notifies"], len(base["proceeds"]), base["notifies"],
                       "; called for the intruder's address" if extra else ""))
                r = obs["result"]
                if r is None or "exc" in r:
                    V("transaction-disturbed", "the running transaction failed (%r); undisturbed it returned %r" %
                      (r.get("exc") if r else None, br.get("value")))
                elif r.get("value") != br.get("value"):
                    V("transaction-data-changed", "client result %r differs from the undisturbed run %r" % ((r.get("value") or [])[:8], (br.get("value") or [])[:8]))
                if obs["responds"] != base["responds"]:
                    V("server-data-changed", "respond() results %r differ from the undisturbed run %r" % (obs["responds"], base["responds"]))
                f = obs["follow"]
                if f is None or "exc" in f or f.get("value") != obs["follow_expected"]:
                    V("not-completed", "a following transaction did not succeed (%r): the disturbed one left a side busy" %
                      ((f.get("exc") if f and "exc" in f else f),))
            else:
                # own address, other pointer: never served in place of the running request
                served_other = [a for a in obs["proceeds"] if a.get("address") == OTHER_PTR]
                if served_other:
                    V("other-pointer-served", "a request for pointer 0x%08X was passed to the serving application while the transaction "
                      "for 0x%08X was running" % (OTHER_PTR, ADDR))
                if len(obs["proceeds"]) > len(base["proceeds"]) or obs["notifies"] > base["notifies"]:
                    V("intruder-reached-application", "more proceed/notify callbacks (%d/%d) than in the undisturbed run (%d/%d)" %
                      (len(obs["proceeds"]), obs["notifies"], len(base["proceeds"]), base["notifies"]))
                r = obs["result"]
                if r is not None and "exc" not in r and r.get("value") != br.get("value"):
                    V("transaction-data-changed", "client result %r differs from the undisturbed run %r" % ((r.get("value") or [])[:8], (br.get("value") or [])[:8]))
                dm15_after = [e for e in obs["log"] if e.node == "S" and ((e.can_id >> 16) & 0xFF) == 0xD8]
                if len(dm15_after) > len([e for e in base["log"] if e.node == "S" and ((e.can_id >> 16) & 0xFF) == 0xD8]):
                    answered += 1
                    sigs.append((shape, p["intruder"], p["copies"], k))
        labels = [shape, p["intruder"], "copies=%d" % p["copies"]]
        return {"violations": viol, "labels": labels, "nontrivial": answered > 0, "subruns": 1 + len(ks), "nontrivial_sigs": sigs,
                "sig": ("case", shape, p["intruder"], p["copies"], p.get("data_seed"), str(p.get("lat"))),
                "extra": {"runs_with_answer_to_intruder": answered},
                "sample": {"shape": shape, "intruder": p["intruder"], "copies": p["copies"], "baseline_frames": n, "k_values": len(ks)}}


CHECK = C19()
