"""C17 - DM14 memory access returns and stores exactly the addressed data.

Generated: client and server MemoryAccess facades on two real J1939-21 stacks with application
threads in virtual time; 1..4 transactions back to back on the same objects: reads (raw or
converted, signed/unsigned) and writes of object count x object size = 1..255 bytes (sizes
1/2/4/8, boundaries 1,6,7,8,9,255), 32-bit pointers, direct/spatial addressing, seed/key on
or off with generated seeds and key algorithms, latencies in (0, 5 ms].
Oracle: reference model of the memory.  DESIGN.md 5/C17.
"""
from hypothesis import strategies as st

from vlib import dm14scen as D
from vlib import simbus

NBYTES = [1, 2, 6, 7, 8, 9, 14, 15, 16, 255]


def _strategy():
    @st.composite
    def build(draw):
        size = draw(st.sampled_from([1, 1, 2, 4, 8]))
        nb = draw(st.one_of(st.sampled_from(NBYTES), st.integers(1, 255)))
        count = max(1, min(255, nb // size))
        seed_key = draw(st.one_of(st.none(), st.tuples(st.integers(0, 0xFFFF), st.integers(0, 0xFFFF)).map(list)))
        ntx = draw(st.integers(1, 4))
        txs = []
        for _ in range(ntx):
            op = draw(st.sampled_from(["read", "read", "write"]))
            tx = {"op": op, "data_seed": draw(st.integers(0, 10 ** 6)), "gap_after": draw(st.sampled_from([0.001, 0.001, 0.02, 0.05, 0.3]))}
            if op == "read":
                tx["signed"] = draw(st.booleans())
                tx["raw"] = draw(st.booleans())
                # the serving application answers this read from inside its notification callback (no application thread)
                tx["inline"] = draw(st.sampled_from([False, False, True]))
            txs.append(tx)
        tx_pair = draw(st.sampled_from([[0.0, 0.0], [0.0, 0.0], [0.0015, 0.0], [0.003, 0.0], [0.0005, 0.0], [0.0, 0.0015], [0.0, 0.003]]))
        if tx_pair[1] > 0:
            # server-side write times only with operations at least 20 ms apart: the facade re-subscribes its listener when
            # respond() has returned, i.e. after the server's last write (documented limit, DESIGN.md 8)
            for tx in txs:
                tx["gap_after"] = max(tx["gap_after"], 0.02)
        return {"size": size, "count": count, "seed_key": seed_key,
                "seeds": draw(st.lists(st.one_of(st.sampled_from([0x0000, 0xFFFF, 1, 0x00FF, 0xFF00, 0xFFFE, 0x8000]), st.integers(0, 0xFFFF)), min_size=1, max_size=3)),
                "addr": draw(st.one_of(st.sampled_from([0, 1, 0x92000003, 0xFFFFFFFF, 0x80000000]), st.integers(0, 0xFFFFFFFF))),
                "direct": draw(st.integers(0, 1)),
                "max_cmdt": [draw(st.sampled_from([1, 2, 255])), draw(st.sampled_from([1, 2, 255]))],
                "lat": {"C": draw(st.lists(st.sampled_from(simbus.LATENCY_GRID[1:]), min_size=1, max_size=2)),
                        "S": draw(st.lists(st.sampled_from(simbus.LATENCY_GRID[1:]), min_size=1, max_size=2))},
                "use_proceed": True,
                "sas": draw(st.sampled_from([[0xF9, 0xD4, 0xA7], [0xF9, 0xD4, 0xA7], [0x00, 0xD4, 0xA7], [0x01, 0x00, 0xFD], [0xFD, 0x80, 0x00], [0x7F, 0xFD, 0x01]])),
                "tx": tx_pair,
                "respond_delay": draw(st.sampled_from([0.0, 0.0, 0.001, 0.02])),
                "txs": txs}
    return build()


class C17:
    ID = "C17"
    LEVEL = "exploration"
    TECHNIQUE = ("model-based property testing: generated DM14 read/write transactions between two real stacks with blocking "
                 "application threads under the virtual-time kernel, oracle = reference memory model")
    RULE = ("Hypothesis draws object size 1/2/4/8 and a byte length 1..255 (boundaries 1,6,7,8,9,255: single-frame DM16 up to 7 "
            "bytes, RTS/CTS above), a 32-bit pointer, direct/spatial addressing, seed/key off or on with 1-3 generated seeds "
            "(0..0xFFFF incl. both boundaries) and a generated bijective key algorithm, max_cmdt_packets per side, latencies in (0, 5 ms], optional "
            "proceed callback, respond delay 0..20 ms (one read in three answered inline from the notify callback), and 1..4 transactions back to back on the same objects (reads raw/converted, "
            "signed/unsigned; writes with values over the full unsigned range incl. all-ones/all-zero objects); non-trivial = "
            ">= 2 objects or >= 8 data bytes or >= 2 transactions; distinct = distinct parameter sets")
    ASSUMPTIONS = [
        "the serving application answers from an application thread after the notify callback (the pattern of the pinned tests) "
        "or, for one read in three, from inside the notify callback itself, "
        "and supplies exactly object_count x object_size bytes",
        "seeds take any 16-bit value incl. 0x0000 and 0xFFFF (set through set_seed_generator)",
        "the caller's max_timeout is 3 s (long enough for 255 bytes at window 1 and 5 ms latency)",
    ]
    shrink_lists = ("txs",)
    shrink_min = {"txs": 1}

    def strategy(self, tier):
        return _strategy()

    def examples(self, tier):
        return 2400 if tier == "quick" else 300000

    def enumerate(self, tier):
        out = []
        for nb in (1, 6, 7, 8, 9, 255):
            for sk_ in (None, [3, 0x1234]):
                out.append({"size": 1, "count": nb, "seed_key": sk_, "seeds": [0xA55A], "addr": 0x92000003, "direct": 1,
                            "max_cmdt": [1, 1], "lat": {"C": [0.0005], "S": [0.0005]}, "use_proceed": True, "respond_delay": 0.0,
                            "txs": [{"op": "read", "data_seed": 5, "gap_after": 0.05, "signed": False, "raw": True},
                                    {"op": "write", "data_seed": 3, "gap_after": 0.05},
                                    {"op": "read", "data_seed": 9, "gap_after": 0.05, "signed": True, "raw": False}]})
        return out

    def exhaustive(self, tier):
        return False

    def run_case(self, p):
        viol = []

        def V(kind, msg, site=""):
            viol.append({"kind": kind, "msg": msg, "bucket": "C17|%s|%s" % (kind, site)})

        size, count = p["size"], p["count"]
        nbytes = size * count
        sas = p.get("sas", [D.SA_C, D.SA_S, D.SA_I])
        dw = D.Dm14World(dict(p, sa_c=sas[0], sa_s=sas[1], sa_i=sas[2]))
        try:
            txs = []
            plans = []
            exp = []
            for ti, t in enumerate(p["txs"]):
                tx = {"op": t["op"], "direct": p["direct"], "addr": p["addr"], "count": count, "size": size,
                      "gap_after": t.get("gap_after", 0.05), "max_timeout": 3}
                if t["op"] == "read":
                    data = D.mem_bytes(t["data_seed"], nbytes)
                    tx["signed"], tx["raw"] = t.get("signed", False), t.get("raw", False)
                    plans.append({"proceed": True, "data": data, "tx": ti, "delay": p.get("respond_delay", 0.0),
                                  "inline": bool(t.get("inline"))})
                    if tx["raw"]:
                        exp.append(("read", list(data)))
                    else:
                        exp.append(("read", [int.from_bytes(bytes(data[i * size:(i + 1) * size]), "little", signed=tx["signed"])
                                             for i in range(count)]))
                else:
                    vals = D.values_for(t["data_seed"], count, size)
                    tx["values"] = vals
                    plans.append({"proceed": True, "data": [], "tx": ti, "delay": p.get("respond_delay", 0.0)})
                    exp.append(("write", [b for v in vals for b in v.to_bytes(size, "little")]))
                txs.append(tx)
            dw.respond_plan = plans
            dw.run_client(txs)
            dw.w.run_for(4.0 * len(txs) + 1.0)
            final_states = dw.peek_states()
            initial_states = dw.initial_states
            live = dw.w.liveness_problems()
            results = list(dw.results)
            responds = list(dw.respond_results)
            proceeds = list(dw.proceed_calls)
            notifies = len(dw.notify_calls)
            app_dead = [t.name for t in (dw.client_thread, dw._srv_thread) if t.done and t.exc is not None]
        finally:
            dw.close()
        mode = "seedkey" if p["seed_key"] else "plain"
        for k2, detail, tt in live:
            V("liveness-" + k2, "%s %r" % (k2, detail), mode)
        if len(results) != len(p["txs"]):
            V("client-hung", "only %d of %d transactions returned within %.0f s each" % (len(results), len(p["txs"]), 4.0), mode)
        for ti, (r, (op, want)) in enumerate(zip(results, exp)):
            shape = "%s|%s|%s" % (mode, op, "single" if nbytes <= 7 else "multi")
            first = "first" if ti == 0 else "later"
            if "exc" in r:
                V("transaction-raised", "transaction %d (%s of %d x %d bytes) raised %s: %s" % (ti, op, count, size, r["exc"][0], r["exc"][1][:120]),
                  shape + "|" + first)
                break
            if op == "read":
                if r["value"] != want:
                    conv = "raw" if p["txs"][ti].get("raw") else "converted"
                    V("read-wrong-data", "transaction %d: read(%d objects of %d bytes, %s) returned %r, the serving application supplied %r"
                      % (ti, count, size, conv, (r["value"] or [])[:8], want[:8]), shape + "|" + conv + "|" + first)
                    break
            rr = [x for x in responds if x[1] == ti]
            if not rr:
                V("respond-missing", "transaction %d: the serving application was never notified / respond() never returned" % ti, shape)
                break
            if op == "write":
                got = rr[0][2]
                got = list(got) if got is not None and not isinstance(got, str) else got
                if got != want:
                    V("write-wrong-data", "transaction %d: respond() returned %r, the client wrote %r" % (ti, got if isinstance(got, str) else (got or [])[:10], want[:10]),
                      shape + "|" + first)
                    break
        # proceed callback arguments
        if p.get("use_proceed", True) and not viol:
            if len(proceeds) != len(p["txs"]):
                V("proceed-count", "%d transactions, proceed callback ran %d times" % (len(p["txs"]), len(proceeds)), mode)
            else:
                for ti, ((t, a), tx) in enumerate(zip(proceeds, p["txs"])):
                    want_cmd = 1 if tx["op"] == "read" else 2
                    if (a["command"], a["address"], a["pointer_type"], a["object_count"], a["sa"]) != (want_cmd, p["addr"], p["direct"], count, sas[0]):
                        V("proceed-args", "transaction %d: proceed callback saw command=%r address=0x%X pointer_type=%r object_count=%r sa=%r; "
                          "client asked command=%d address=0x%X pointer_type=%d object_count=%d" %
                          (ti, a["command"], a["address"], a["pointer_type"], a["object_count"], a["sa"], want_cmd, p["addr"], p["direct"], count), mode)
                        break
        if not viol:
            bad = {k: v for k, v in final_states.items() if v is not None and v != initial_states.get(k)}
            if bad:
                V("not-idle", "after all transactions the state attributes differ from those of fresh (idle) objects: %r" % (bad,), mode)
            if app_dead:
                V("app-thread-died", "application thread(s) died: %r" % (app_dead,), mode)
        labels = [mode, "size=%d" % size, "single-frame" if nbytes <= 7 else ("8-bytes" if nbytes == 8 else "multi-packet")]
        labels += sorted({t["op"] for t in p["txs"]})
        if len(p["txs"]) >= 2:
            labels.append("back-to-back")
        return {"violations": viol, "labels": labels, "nontrivial": count >= 2 or nbytes >= 8 or len(p["txs"]) >= 2,
                "sample": {k: p[k] for k in ("size", "count", "seed_key", "direct", "max_cmdt")} | {"addr": "0x%08X" % p["addr"], "txs": p["txs"]}}


CHECK = C17()
